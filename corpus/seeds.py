# -*- coding: utf-8 -*-
"""Runnable seed programs for C01: each prints what it computes and leaves values in its public namespace.  They never print
renamed local names, annotations or line numbers, never compare exception messages, never rebind `object`."""

SEEDS = {}

SEEDS['closures'] = '''
def make_counter(start_value, step=1):
    current_value = start_value
    def increment(times=1):
        nonlocal current_value
        for _unused in range(times):
            current_value += step
        return current_value
    def peek():
        return current_value
    return increment, peek
increment, peek = make_counter(10, step=5)
print(increment(), increment(2), peek())
adders = [lambda value, offset=offset: value + offset for offset in range(3)]
print([adder(10) for adder in adders])
def outer_function(first_value):
    def middle_function(second_value):
        def inner_function(third_value):
            return first_value + second_value + third_value
        return inner_function
    return middle_function
print(outer_function(1)(2)(3))
total = sum(value * value for value in range(5) if value % 2 == 0)
'''

SEEDS['classes'] = '''
class Shape(object):
    sides = 0
    instances = []
    def __init__(self, name_value, *dimensions, **options):
        self.name_value = name_value
        self.dimensions = dimensions
        self.options = options
        Shape.instances.append(self)
    def area(self):
        raise NotImplementedError()
    def describe(self, prefix='shape'):
        return '%s:%s:%d' % (prefix, self.name_value, self.sides)
    @classmethod
    def create(cls, name_value, *dimensions):
        return cls(name_value, *dimensions)
    @staticmethod
    def helper(first_value, second_value=2):
        return first_value * second_value
    @property
    def label(self):
        return self.name_value.upper()
class Square(Shape):
    sides = 4
    def area(self):
        side_length = self.dimensions[0]
        return side_length * side_length
    def describe(self, prefix='square'):
        return super().describe(prefix=prefix) + '!'
square = Square.create('sq', 3)
print(square.area(), square.describe(), square.describe(prefix='p'), square.label, Shape.helper(4, second_value=5), len(Shape.instances))
try:
    Shape('plain').area()
except NotImplementedError as error_value:
    print('not implemented', type(error_value).__name__)
print(sorted(name for name in vars(Square) if not name.startswith('__')), Square.__mro__[1].__name__)
'''

SEEDS['generators'] = '''
def fibonacci(limit_value):
    first_value, second_value = 0, 1
    while first_value < limit_value:
        yield first_value
        first_value, second_value = second_value, first_value + second_value
def delegating(limit_value):
    received = yield from fibonacci(limit_value)
    yield 'done', received
def echo():
    received_value = None
    while True:
        received_value = yield received_value
        if received_value is None:
            return 'finished'
print(list(fibonacci(30)), list(delegating(5)))
generator = echo()
next(generator)
print(generator.send('a'), generator.send('b'))
try:
    generator.send(None)
except StopIteration as stop_value:
    print(stop_value.value)
squares = {number: number ** 2 for number in range(4)}
evens = {number for number in range(10) if not number % 2}
print(squares, sorted(evens), [pair for pair in zip('ab', (1, 2))])
'''

SEEDS['exceptions'] = '''
class CustomError(Exception):
    def __init__(self, code_value):
        super().__init__(code_value)
        self.code_value = code_value
def risky(mode_value):
    if mode_value == 0:
        raise ValueError()
    if mode_value == 1:
        raise KeyError('missing')
    if mode_value == 2:
        raise CustomError(42)
    if mode_value == 3:
        raise TypeError() from ValueError()
    return 'fine'
results = []
for mode_value in range(5):
    try:
        results.append(risky(mode_value))
    except (ValueError, KeyError) as caught_error:
        results.append(type(caught_error).__name__)
    except CustomError as caught_error:
        results.append(caught_error.code_value)
    except Exception as caught_error:
        results.append((type(caught_error).__name__, type(caught_error.__cause__).__name__))
    else:
        results.append('no error')
    finally:
        results.append('finally')
print(results)
def cleanup_order():
    order = []
    try:
        try:
            order.append('try')
            return order
        finally:
            order.append('inner finally')
    finally:
        order.append('outer finally')
print(cleanup_order())
assert results, 'results must not be empty'
'''

SEEDS['scoping'] = '''
counter_value = 0
shared_names = ['alpha', 'beta']
def bump(amount=1):
    global counter_value
    counter_value += amount
    return counter_value
def shadowing(counter_value):
    counter_value = counter_value * 2
    shared_names = 'local'
    return counter_value, shared_names
class Namespace:
    counter_value = counter_value + 100
    def method(self):
        return counter_value
    values = [counter_value for _index in range(2)]
bump(); bump(5)
print(counter_value, shadowing(3), Namespace.counter_value, Namespace().method(), Namespace.values)
def walrus_user(items):
    if (count := len(items)) > 1:
        return count, [last := item for item in items], last
    return count
print(walrus_user([1, 2, 3]), walrus_user([]))
matrix = [[row * column for column in range(3)] for row in range(3)]
flattened = [cell for row in matrix for cell in row if cell]
print(matrix, flattened)
del shared_names[0]
print(shared_names)
'''

SEEDS['functions'] = '''
def signature_zoo(positional, /, standard, default_value=3, *extra_args, keyword_only, keyword_default='kd', **extra_keywords):
    return positional, standard, default_value, extra_args, keyword_only, keyword_default, sorted(extra_keywords.items())
print(signature_zoo(1, 2, keyword_only=3))
print(signature_zoo(1, standard=2, default_value=4, keyword_only=5, keyword_default=6, other=7))
print(signature_zoo(1, 2, 3, 4, 5, keyword_only=6, **{'zeta': 1, 'alpha': 2}))
def decorator_factory(multiplier):
    def decorator(function):
        def wrapper(*args, **kwargs):
            return function(*args, **kwargs) * multiplier
        wrapper.__wrapped__ = function
        return wrapper
    return decorator
@decorator_factory(3)
@decorator_factory(2)
def add_values(first_value, second_value=10):
    return first_value + second_value
print(add_values(1), add_values(1, second_value=2), add_values.__wrapped__.__wrapped__(1, 1))
def recursive_factorial(number):
    return 1 if number <= 1 else number * recursive_factorial(number - 1)
print(recursive_factorial(10), (lambda first, second=2, *rest, **named: (first, second, rest, named))(1, 2, 3, key=4))
def explicit_none(flag):
    if flag:
        return None
    return
print(explicit_none(True), explicit_none(False))
'''

SEEDS['strings'] = '''
name_value = 'world'
number_value = 3.14159
print(f'hello {name_value}!', f'{number_value:.2f}', f'{name_value!r:>10}', f'{{literal}} {name_value.upper()}', f"{'nested'} {name_value[1:3]}")
width_value = 8
print(f'{number_value:{width_value}.3f}|', f'{name_value=}', 'a' 'b' "c", b'bytes' + b'\\x00\\xff', 'tab\\there', 'quote\\'s', "double\\"s", """triple
line""")
print('%s-%d' % (name_value, 7), '{0}{1}'.format(1, 2), 'repeated text value', 'repeated text value', 'repeated text value')
print(len('repeated text value'), 'repeated text value'.title(), str(b'repeated bytes value'), b'repeated bytes value'.decode(), b'repeated bytes value'[0])
unicode_text = 'h\\u00e9llo \\u65e5\\u672c'
print(unicode_text, len(unicode_text), unicode_text.encode('utf-8'))
'''

SEEDS['numbers'] = '''
seconds_per_day = 60 * 60 * 24
mask_value = 0xff << 8 | 0x0f
print(seconds_per_day, mask_value, 10 / 4, 10 // 4, 10 % 4, 2 ** 10, -7 // 2, -7 % 3, 1e3, 1.5e-3, 0.1 + 0.2, 5j * 2, (1 + 2j).real)
print(1 if 0 else 2, not 1, 1 < 2 < 3, 1 < 2 > 3, 5 & 3, 5 | 3, 5 ^ 3, ~5, -(-3), +(-3), True + True, 1_000_000, 0b101, 0o17)
print(round(2.5), abs(-3.5), divmod(7, 2), max(1, 2, 3), min([4, 5]), sum([1, 2, 3]), int('12') + float('1.5'))
big_value = 2 ** 64 + 1
print(big_value, big_value % 7, hex(big_value), 0.0 * -1, -0.0, 1e308 * 10, float('inf') - 1)
'''

SEEDS['control'] = '''
def classify(value):
    match value:
        case 0:
            return 'zero'
        case int() | float() if value < 0:
            return 'negative'
        case [first, *rest]:
            return 'list', first, rest
        case {'key': inner}:
            return 'dict', inner
        case str() as text:
            return 'text', text
        case _:
            return 'other'
print([classify(item) for item in (0, -1, [1, 2, 3], {'key': 'v'}, 'abc', 3.5)])
collected = []
for outer_index in range(3):
    for inner_index in range(3):
        if inner_index == outer_index:
            continue
        if inner_index > 1:
            break
        collected.append((outer_index, inner_index))
    else:
        collected.append('no break')
index_value = 0
while index_value < 3:
    index_value += 1
else:
    collected.append('while else')
print(collected)
with open(__file__ if '__file__' in dir() else '/dev/null') as handle, open('/dev/null') as second_handle:
    pass
print(handle.closed, second_handle.closed)
'''

SEEDS['dataclasses'] = '''
import dataclasses
import typing
@dataclasses.dataclass
class Point:
    x_coordinate: int
    y_coordinate: int = 0
    tags: typing.List[str] = dataclasses.field(default_factory=list)
    def shifted(self, delta: int) -> 'Point':
        return Point(self.x_coordinate + delta, self.y_coordinate + delta)
class Pair(typing.NamedTuple):
    left: int
    right: str = 'r'
point = Point(1)
print(point, point.shifted(2), [field.name for field in dataclasses.fields(Point)], Pair(1), Pair._fields)
counter: int = 0
def annotated(first: int, second: 'str' = 's') -> typing.Optional[int]:
    local: int = first
    return local
print(annotated(1), counter)
'''

SEEDS['imports'] = '''
import os
import sys
import os.path
from collections import OrderedDict
from collections import namedtuple
import json as json_module
from os.path import join as join_paths, basename
print(os.sep, sys.version_info[0], os.path.basename('/a/b'), list(OrderedDict(a=1)), namedtuple('N', 'f')(1).f, json_module.dumps([1]), join_paths('a', 'b'), basename('/x/y'))
def lazy_import():
    import math
    from math import floor as floor_function
    return math.ceil(1.5), floor_function(1.5)
print(lazy_import())
'''

SEEDS['async'] = '''
import asyncio
async def produce(limit_value):
    for number in range(limit_value):
        await asyncio.sleep(0)
        yield number
async def consume():
    collected = [number async for number in produce(3)]
    doubled = [number * 2 for number in collected]
    async def nested_wait(value):
        await asyncio.sleep(0)
        return value + 1
    gathered = await asyncio.gather(nested_wait(1), nested_wait(2))
    return collected, doubled, gathered
print(asyncio.run(consume()))
'''


def seeds_for(version_tuple):
    out = []
    for name, src in sorted(SEEDS.items()):
        if name == 'control' and version_tuple < (3, 10):
            continue
        if name in ('functions', 'scoping') and version_tuple < (3, 8):
            continue
        out.append((name, src.lstrip('\n')))
    return out
