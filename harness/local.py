"""In-process observation of the real minify() (orchestrator interpreter: /venv, CPython 3.12) with the
outside seams installed, fanned out over a fork pool."""
from __future__ import print_function

import ast
import multiprocessing
import signal
import sys

from .common import NCPU, ensure_repo_on_path

ensure_repo_on_path()

PIPE_OPTS = ["remove_literal_statements", "combine_imports", "remove_annotations", "remove_pass",
             "remove_object_base", "remove_asserts", "remove_debug", "remove_explicit_return_none",
             "constant_folding", "remove_builtin_exception_brackets", "hoist_literals",
             "convert_posargs_to_args", "rename_locals", "rename_globals"]

DEFAULTS = dict(remove_literal_statements=False, combine_imports=True, remove_annotations=True, remove_pass=True,
                remove_object_base=True, remove_asserts=False, remove_debug=False, remove_explicit_return_none=True,
                constant_folding=True, remove_builtin_exception_brackets=True, hoist_literals=True,
                convert_posargs_to_args=True, rename_locals=True, rename_globals=False, preserve_shebang=True)

ALL_OFF = dict(remove_literal_statements=False, combine_imports=False, remove_annotations=False, remove_pass=False,
               remove_object_base=False, remove_asserts=False, remove_debug=False, remove_explicit_return_none=False,
               constant_folding=False, remove_builtin_exception_brackets=False, hoist_literals=False,
               convert_posargs_to_args=False, rename_locals=False, rename_globals=False, preserve_shebang=False)

ALL_ON = dict(remove_literal_statements=True, combine_imports=True,
              remove_annotations={'remove_variable_annotations': True, 'remove_return_annotations': True,
                                  'remove_argument_annotations': True, 'remove_class_attribute_annotations': True},
              remove_pass=True, remove_object_base=True, remove_asserts=True, remove_debug=True,
              remove_explicit_return_none=True, constant_folding=True, remove_builtin_exception_brackets=True,
              hoist_literals=True, convert_posargs_to_args=True, rename_locals=True, rename_globals=True,
              preserve_shebang=True)


def kwargs_of(opts):
    import python_minifier
    from python_minifier.transforms.remove_annotations_options import RemoveAnnotationsOptions
    kw = {}
    for k, v in opts.items():
        if k == 'remove_annotations' and isinstance(v, dict):
            kw[k] = RemoveAnnotationsOptions(**v)
        else:
            kw[k] = v
    return kw


def effective_opts(opts):
    """the 14 gating booleans of Pipeline.tla for an option dict (defaults filled in)."""
    o = {}
    for k in PIPE_OPTS:
        v = opts.get(k, DEFAULTS[k])
        if k == 'remove_annotations':
            if isinstance(v, dict):
                d = dict(remove_variable_annotations=True, remove_return_annotations=True,
                         remove_argument_annotations=True, remove_class_attribute_annotations=False)
                d.update(v)
                v = any(d.values())
            else:
                v = bool(v)
        o[k] = bool(v)
    return o


class Timeout(Exception):
    pass


def _alarm(signum, frame):
    raise Timeout()


_restore = None
_rec = None


def _init():
    global _restore, _rec
    sys.setrecursionlimit(3000)
    from . import seams
    _rec = seams.Recorder()
    _restore = seams.install(_rec)
    signal.signal(signal.SIGALRM, _alarm)


def observe_minify(job):
    """job: {id, src (str|bytes), opts}.  Returns the `common`+`pipeline` observation record (Appendix F)."""
    import python_minifier
    if _rec is None:
        _init()
    src = job['src']
    opts = job.get('opts', {})
    rec = {'id': job['id'], 'seams': True, 'opts': effective_opts(opts)}
    try:
        ast.parse(src, 'in')
        rec['parses'] = True
    except SyntaxError:
        rec['parses'] = False
    except (ValueError, RecursionError, MemoryError):
        rec['parses'] = False
        rec['unjudgeable'] = True
    comp = False
    if rec['parses']:
        try:
            compile(src, 'in', 'exec', dont_inherit=True)
            comp = True
        except (SyntaxError, ValueError, RecursionError, MemoryError):
            comp = False
    rec['compiles'] = comp
    _rec.begin()
    out = None
    signal.alarm(job.get('timeout', 120))
    try:
        out = python_minifier.minify(src, **kwargs_of(opts))
        rec['outcome'] = 'return'
        rec['syntaxerr'] = False
    except Timeout:
        rec['outcome'] = 'raise:Timeout'
        rec['syntaxerr'] = False
        rec['unjudgeable'] = True
    except RecursionError:
        rec['outcome'] = 'raise:RecursionError'
        rec['syntaxerr'] = False
        rec['unjudgeable'] = True      # stated limitation: recursive printer on pathologically deep input
    except BaseException as e:  # noqa
        rec['outcome'] = 'raise:' + type(e).__name__
        rec['syntaxerr'] = isinstance(e, SyntaxError)
        rec['msg'] = str(e)[:160]
    finally:
        signal.alarm(0)
    cout = False
    if out is not None:
        try:
            compile(out, 'out', 'exec', dont_inherit=True)
            cout = True
        except (SyntaxError, ValueError) as e:
            rec['compile_out_err'] = str(e)[:160]
        except (RecursionError, MemoryError):
            cout = True
            rec['unjudgeable'] = True
    rec['compiles_out'] = cout
    evs = []
    for e in _rec.events():
        evs.append({'stage': e['stage'], 'flag': bool(e.get('flag', False))})
    rec['stages'] = evs
    mod = _rec.module()
    rec['tainted'] = bool(getattr(mod, 'tainted', False)) if mod is not None else False
    rec['out'] = out
    return rec


def pmap(func, jobs, procs=None, chunksize=None):
    jobs = list(jobs)
    if not jobs:
        return []
    procs = min(procs or NCPU, len(jobs))
    if procs <= 1:
        return [func(j) for j in jobs]
    ctx = multiprocessing.get_context('fork')
    # the orchestrator often holds hundreds of thousands of exported cases: keep them out of the garbage collector's way in the workers
    # (a full collection over that heap costs seconds, and touching it breaks copy-on-write sharing)
    import gc
    gc.collect()
    gc.freeze()
    try:
        with ctx.Pool(procs) as pool:
            return pool.map(func, jobs, chunksize or max(1, min(64, len(jobs) // (procs * 4) or 1)))
    finally:
        gc.unfreeze()
