"""Materialise an abstract Cli.tla configuration as a real file tree, run the real pyminify entry point on it
(in-process: python_minifier.__main__.main() with argv/stdio patched, open events from an audit hook, and
fault injection through builtins.open because root ignores permission bits), and project the result back
to the vocabulary of CliS.tla."""
from __future__ import print_function

import builtins
import hashlib
import io
import os
import shutil
import sys
import traceback

from .common import outdir, ensure_repo_on_path

ensure_repo_on_path()

SHRINK = ("# module %s\n\ndef function_name(argument_one, argument_two=None):\n    '''docstring'''\n"
          "    local_variable = argument_one + 1\n    return local_variable\n\n\nprint(function_name(41), %s)\n")
# minifying the minified text once more gives something else again (the re-bound parameters swap their short names on the second pass)
NONIDEM = ("# module %s\ndef is_ast_node(node, field):\n    if node and field == 1: return 0\n    if node and field == 2: return 1\n"
           "    if node and field == 3: return 2\n    if node is None and field == 4: return field\n    return node\nprint(is_ast_node(1, %s))\n")
GROW = "x%s='\t'"            # a raw TAB inside the literal: repr() needs two characters
EQUAL = "x%s=1"
INVALID = "def (:\n    pass # %s\n"
UNDECODABLE = b"x = '\xff\xfe %s'\n"


def content_for(cls, ident):
    if cls in ('shrinks', 'readonly', 'unreadable'):
        return (SHRINK % (ident, ident)).encode()
    if cls == 'legacy':
        return b'# -*- coding: latin-1 -*-\n' + (SHRINK % (ident, ident)).replace("'''docstring'''", "'''caf\xe9 cr\xe8me'''").replace('print(', "print('\xe9t\xe9', ").encode('latin-1')
    if cls == 'nonidem':
        return (NONIDEM % (ident, ident)).encode()
    if cls == 'grows':
        return (GROW % ident).encode()
    if cls == 'equal':
        return (EQUAL % ident).encode()
    if cls == 'empty':
        return b''
    if cls == 'invalid':
        return (INVALID % ident).encode()
    if cls == 'undecodable':
        return UNDECODABLE.replace(b'%s', str(ident).encode())
    raise ValueError(cls)


def sha(b):
    return hashlib.sha256(b).hexdigest()


OTHER_SUFFIXES = ['.txt', '.pyc', '.py.bak', '.pyx', 'py', '.PY~', '.python']
NAMED_SUFFIXES = ['.py', '.py', '.txt', '']
PY_PLACES = ['d', 'd/sub', 'd/sub/deeper', 'd/link']


class Layout(object):
    """paths for the files of one configuration; variant selects suffix/placement spellings deterministically"""

    def __init__(self, root, cfg, variant=0):
        self.root = root
        self.paths = []
        self.args = []
        self.linked = False
        n = len(cfg['reach'])
        for i in range(n):
            r = cfg['reach'][i]
            k = variant + i
            if r == 'named':
                p = os.path.join(root, 'n%d%s' % (i, NAMED_SUFFIXES[k % len(NAMED_SUFFIXES)]))
            elif r == 'dir_py':
                place = PY_PLACES[k % len(PY_PLACES)]
                if place == 'd/link':
                    self.linked = True
                    p = os.path.join(root, 'linked', 'm%d.py' % i)
                else:
                    p = os.path.join(root, place, 'm%d.py' % i)
            elif r == 'dir_pyw':
                p = os.path.join(root, 'd', 'w%d.pyw' % i)
            elif r == 'dir_other':
                p = os.path.join(root, 'd', 'o%d%s' % (i, OTHER_SUFFIXES[k % len(OTHER_SUFFIXES)]))
            else:
                p = os.path.join(root, 'elsewhere', 'z%d.py' % i)
            self.paths.append(p)
        named = [self.paths[i] for i in range(n) if cfg['reach'][i] == 'named']
        has_dir = any(r.startswith('dir_') for r in cfg['reach'])
        if cfg['shape'] == 'one_file':
            self.args = named[:1]
        elif cfg['shape'] == 'many':
            self.args = named + ([os.path.join(root, 'd')] if has_dir else [])
        elif cfg['shape'] == 'dir':
            self.args = [os.path.join(root, 'd')]
        elif cfg['shape'] == 'stdin':
            self.args = ['-']
        elif cfg['shape'] == 'stdin_and_file':
            self.args = ['-'] + named[:1]
        tw = cfg.get('twice')
        if tw == 'named':
            # the first named file once more, spelled through its directory
            first = named[0]
            self.args.append(os.path.join(os.path.dirname(first), '.', os.path.basename(first)))
        elif tw == 'dir+file':
            self.args.append(self.paths[0])
        elif tw == 'dir+dir':
            self.args.append(os.path.join(root, 'd', ''))

    def materialise(self, cfg):
        shutil.rmtree(self.root, ignore_errors=True)
        os.makedirs(os.path.join(self.root, 'd'))
        pre = []
        for i, p in enumerate(self.paths):
            os.makedirs(os.path.dirname(p), exist_ok=True)
            b = content_for(cfg['class'][i], i)
            with open(p, 'wb') as f:
                f.write(b)
            pre.append(b)
        if self.linked:
            os.symlink(os.path.join(self.root, 'linked'), os.path.join(self.root, 'd', 'link'))
        return pre


class _Stdout(object):
    def __init__(self):
        self.buffer = io.BytesIO()
        self.text = []

    def write(self, s):
        self.text.append(s)
        return len(s)

    def flush(self):
        pass


class _Stdin(object):
    def __init__(self, data):
        self.buffer = io.BytesIO(data)

    def read(self):
        return self.buffer.read().decode('utf-8')


_events = None


def _audit(event, a):
    if _events is not None and event == 'open':
        try:
            _events.append((str(a[0]), str(a[1])))
        except Exception:
            pass


_hook_installed = False


def run_main(argv, stdin_bytes=b'', unreadable=(), readonly=(), env_force=False, record_kwargs=None):
    """Run python_minifier.__main__.main() in this process.  Returns dict(exit, stdout_bytes, stdout_text, opens, exc)."""
    global _events, _hook_installed
    import python_minifier.__main__ as cli
    if not _hook_installed:
        sys.addaudithook(_audit)
        _hook_installed = True
    real_open = builtins.open
    unreadable = set(os.path.realpath(p) for p in unreadable)
    readonly = set(os.path.realpath(p) for p in readonly)
    tool_reads = []

    def fake_open(file, mode='r', *a, **k):
        if isinstance(file, str):
            rp = os.path.realpath(file)
            if rp in unreadable and 'r' in mode:
                if _events is not None:
                    _events.append((file, mode))       # the attempt counts as a visit: the injected fault precedes the audit event
                tool_reads.append(file)
                raise PermissionError(13, 'Permission denied', file)
            if rp in readonly and ('w' in mode or 'a' in mode or '+' in mode):
                raise PermissionError(13, 'Permission denied', file)
            if 'r' in mode and rp not in unreadable:
                tool_reads.append(file)             # the tool's own reads, in order (the interpreter itself re-reads a file to print a traceback)
        return real_open(file, mode, *a, **k)

    old = (sys.argv, sys.stdout, sys.stdin, sys.stderr, os.environ.get('PYMINIFY_FORCE_BEST_EFFORT'))
    out = _Stdout()
    err = io.StringIO()
    sys.argv = ['pyminify'] + list(argv)
    sys.stdout = out
    sys.stdin = _Stdin(stdin_bytes)
    sys.stderr = err
    if env_force:
        os.environ['PYMINIFY_FORCE_BEST_EFFORT'] = '1'
    else:
        os.environ.pop('PYMINIFY_FORCE_BEST_EFFORT', None)
    saved_minify = cli.minify
    if record_kwargs is not None:
        def rec_minify(source, **kw):
            record_kwargs.append(kw)
            return saved_minify(source, **kw)
        cli.minify = rec_minify
    cli.open = fake_open      # module-level name lookup precedes builtins
    _events = []
    res = {'exc': ''}
    try:
        try:
            ret = cli.main()
            res['exit'] = 0                      # `python -m python_minifier`: the module guard calls main() and drops what it returns
            res['exit_script'] = 0 if ret is None else (ret if isinstance(ret, int) else 1)    # the pyminify console script: sys.exit(main())
        except SystemExit as e:
            c = e.code
            res['exit'] = 0 if c is None else (c if isinstance(c, int) else 1)
            res['exit_script'] = res['exit']
        except BaseException as e:   # noqa  an uncaught exception ends a real process with status 1
            res['exit'] = res['exit_script'] = 1
            res['exc'] = type(e).__name__
    finally:
        evs = _events
        _events = None
        try:
            del cli.open
        except AttributeError:
            pass
        cli.minify = saved_minify
        sys.argv, sys.stdout, sys.stdin, sys.stderr = old[:4]
        if old[4] is None:
            os.environ.pop('PYMINIFY_FORCE_BEST_EFFORT', None)
        else:
            os.environ['PYMINIFY_FORCE_BEST_EFFORT'] = old[4]
    res['stdout_bytes'] = out.buffer.getvalue()
    res['stdout_text'] = ''.join(out.text)
    res['stderr'] = err.getvalue()[-300:]
    res['opens'] = evs
    res['tool_reads'] = tool_reads
    return res


def api_bytes(source_bytes, kwargs):
    """what the API returns for these bytes under the given keyword arguments, UTF-8 encoded (None if it raises)."""
    import python_minifier
    from .local import kwargs_of
    try:
        return python_minifier.minify(source_bytes, **kwargs_of(kwargs)).encode('utf-8')
    except BaseException:   # noqa
        return None


def run_config(job):
    """job: {id, cfg (export record of Cli.tla), variant}.  Returns the Trace_Cli observation record."""
    cfg = job['cfg']
    root = os.path.join(outdir('fs'), 'r_%s_%d' % (job['id'].replace('/', '_'), os.getpid()))
    lay = Layout(root, cfg, job.get('variant', 0))
    pre = lay.materialise(cfg)
    n = len(lay.paths)
    argv = list(lay.args)
    outpath = os.path.join(root, 'OUT.min')
    if cfg['mode'] == 'in_place':
        argv.append('--in-place')
    elif cfg['mode'] == 'output':
        if cfg.get('self_output') == 'direct':
            outpath = lay.paths[0]
        elif cfg.get('self_output') == 'symlink':
            outpath = os.path.join(root, 'OUT.link')
            os.symlink(lay.paths[0], outpath)
        argv += ['--output', outpath]
    unreadable = [lay.paths[i] for i in range(n) if cfg['class'][i] == 'unreadable']
    readonly = [lay.paths[i] for i in range(n) if cfg['class'][i] == 'readonly']
    stdin_bytes = pre[0] if cfg['shape'] in ('stdin', 'stdin_and_file') and n else b''
    if cfg['shape'] in ('stdin', 'stdin_and_file') and cfg['mode'] == 'in_place':
        pass
    res = run_main(argv, stdin_bytes=stdin_bytes, unreadable=unreadable, readonly=readonly, env_force=cfg['force'])
    api = [api_bytes(b, {}) for b in pre]
    files = []
    real = {os.path.realpath(p): i for i, p in enumerate(lay.paths)}
    opened_r = set()
    opened_w = set()
    order = []
    for path, mode in res['opens']:
        i = real.get(os.path.realpath(path))
        if i is None:
            continue
        if 'w' in mode or 'a' in mode or '+' in mode:
            opened_w.add(i)
        else:
            opened_r.add(i)
    # visiting order = the tool's own reads, every one of them: a file the arguments reach twice must still be read once
    for path in res['tool_reads']:
        i = real.get(os.path.realpath(path))
        if i is not None:
            order.append(i + 1)
    if cfg['shape'] == 'stdin' and cfg['mode'] != 'in_place':
        order = [1]          # reading stdin stands for reading pseudo-file 1
    for i, p in enumerate(lay.paths):
        try:
            with open(p, 'rb') as f:
                post = f.read()
        except OSError:
            post = None
        what = 'pre' if post == pre[i] else ('min' if api[i] is not None and post == api[i] else 'other')
        if post == pre[i] and api[i] is not None and post == api[i]:
            what = 'pre'
        files.append({'reach': cfg['reach'][i], 'class': cfg['class'][i], 'post': what,
                      'readlen': len(pre[i]), 'apilen': len(api[i]) if api[i] is not None else 0,
                      'api_is_pre': api[i] is not None and api[i] == pre[i],
                      'opened_w': i in opened_w, 'opened_r': i in opened_r})

    def classify(b):
        """which file's content is this, and is it the original or the API result"""
        pref = [k - 1 for k in order] + [k for k in range(n) if (k + 1) not in order]
        for i in pref:
            if b == pre[i]:
                return {'what': 'pre', 'file': i + 1, 'len': len(b)}
        for i in pref:
            if api[i] is not None and b == api[i]:
                return {'what': 'min', 'file': i + 1, 'len': len(b)}
        return {'what': 'other', 'file': 0, 'len': len(b)}
    outw = {'what': 'none', 'file': 0, 'len': 0}
    if os.path.exists(outpath):
        with open(outpath, 'rb') as f:
            outw = classify(f.read())
    so = res['stdout_bytes']
    sout = classify(so) if (so or (cfg['mode'] == 'stdout' and res['exit'] == 0 and order)) else {'what': 'none', 'file': 0, 'len': 0}
    others_changed = False
    rec = {'id': job['id'], 'shape': cfg['shape'], 'mode': cfg['mode'], 'force': bool(cfg['force']), 'files': files,
           'exit': int(res['exit']), 'exit2': int(res['exit_script']), 'exc': res['exc'], 'outw': outw, 'sout': sout, 'order': order,
           'listed': len([l for l in res['stdout_text'].split('\n') if l]), 'self_output': bool(cfg.get('self_output'))}
    shutil.rmtree(root, ignore_errors=True)
    return rec
