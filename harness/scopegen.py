"""Abstract scope programs (Rename.tla / PyScope.tla) <-> concrete Python: concretise an enumerated program as runnable source
in which every store writes a unique tag and every load reports (tag, value); run the real minify(); read back the spelling
of every occurrence from the output by its tag; run input and output and compare the logs."""
from __future__ import print_function

import ast
import sys

from .common import ensure_repo_on_path

ensure_repo_on_path()

CONCRETE = {'x': 'xx', 'y': 'yy'}
NAMES = ['x', 'y']


class Conc(object):
    def __init__(self, p, variant=0, taint=False, names=None, imports=False, heavy=(), listcomp=False, store=None, witness=False, wrap=False, deco=(), place=None):
        self.p = p
        self.par, self.kind, self.uses = p['par'], p['kind'], p['uses']
        self.n = len(self.par)
        self.names = [nm for nm in NAMES if nm in self.uses[0]]
        self.cn = dict(CONCRETE)
        self.cn['w'] = 'ww'
        # decorations: mentions of the program's names in positions that bind nothing or are evaluated elsewhere
        #   'ann'  a value-less annotation `xx: int` at the top of the module for names the module itself never stores (binds nothing at run time)
        #   'del'  `del xx` in function scopes that declare xx global without storing it (a mention, judged like a read)
        #   'hdr'  reads in the annotations of *args / **kwargs of every function (evaluated in the scope that contains the def)
        # where the definitions of nested scopes sit: None (directly in the suite) or inside an except handler / a match case / a with statement / a finally
        # clause / the else of a loop; expression scopes (lambda, comprehension) then sit in a keyword-argument value
        self.place = place
        self.deco = set(deco)
        self.del_tags = []
        self.wrap = wrap            # the stores of every statement scope sit one level down, in the body of an `if` (same scope, another suite)
        self.witness = witness      # every function body and the module also bind and read a name of their own (`w`): something that can be renamed in every program
        if names:
            self.cn.update(names)
        self.kids = {s: [c for c in range(2, self.n + 1) if self.par[c - 1] == s] for s in range(1, self.n + 1)}
        self.tag = 1000
        self.occ = []       # {tag, scope, name, how}
        self.decl = []      # {scope, name, how}
        self.helpers = ['emit']
        self.variant = variant
        self.taint = taint
        self.imports = imports      # stores in statement scopes are spelled `import name` (an alias-less import is expensive to rename)
        # how a store in a statement scope is spelled: assign `n = T`, import, ann `n: int = T` (rebuilt by annotation removal), for `for n in [T]: pass`,
        # with `with emit.ctx(T) as n: pass`, tuple `n, emit.k = T, 0`
        # a list of abstract names: only those names' stores are alias-less imports (the other name stays cheap to rename and can be handed the import's spelling first)
        self.import_names = set(imports) if isinstance(imports, (list, tuple)) else None
        self.store = store or ('import' if imports and self.import_names is None else 'assign')
        if self.store == 'import':
            self.imports = True
        self.import_tags = []
        self.listcomp = listcomp    # comprehensions are written as list comprehensions (inlined on CPython >= 3.12, PEP 709) instead of generator expressions
        self.heavy = set(heavy)     # names whose loads are written three times (changes the order in which the assigner processes bindings)
        self.src = '\n'.join(self.body(1, 0)) + '\n'

    def T(self, s, nm, how):
        self.tag += 1
        self.occ.append({'tag': self.tag, 'scope': s, 'name': nm, 'how': how})
        return str(self.tag)

    def u(self, s, nm):
        return self.uses[s - 1].get(nm, [])

    def marker(self, s):
        return 9000 + s

    # ---- expression scopes
    def expr_items(self, s):
        items = ['emit(%d, 0)' % self.marker(s)]
        for nm in self.names:
            if 'load' in self.u(s, nm):
                items.append('emit(%s, %s)' % (self.T(s, nm, 'load'), self.cn[nm]))
            if 'walrus' in self.u(s, nm):
                items.append('(%s := %s)' % (self.cn[nm], self.T(s, nm, 'walrus')))
        for c in self.kids[s]:
            items.append(self.expr(c))
        return items

    def expr(self, s):
        k = self.kind[s - 1]
        if k == 'g':
            its = [nm for nm in self.names if 'store' in self.u(s, nm)]
            fors = ' '.join('for %s in [%s]' % (self.cn[t], self.T(s, t, 'store')) for t in its) or 'for emit.k in [0]'
            items = self.expr_items(s)
            if self.listcomp:
                return '[(' + ', '.join(items) + ',) ' + fors + ']'
            return 'list((' + ', '.join(items) + ',) ' + fors + ')'
        if k == 'l':
            params = [nm for nm in self.names if 'param' in self.u(s, nm)]
            args = ', '.join(self.T(s, nm, 'param') for nm in params)
            items = self.expr_items(s)
            return '(lambda %s: (%s,))(%s)' % (', '.join(self.cn[nm] for nm in params), ', '.join(items), args)
        raise ValueError(k)

    # ---- statement scopes
    def guarded(self, pad, stmt):
        return [pad + 'try: ' + stmt, pad + 'except NameError: emit(-1, 0)']

    def _child(self, s, c, k, ind):
        """the lines that define (and, for a function, call) the statement scope c inside scope s, at the indentation of s"""
        pad = '    ' * ind
        out = []
        if k == 'f':
            params = [nm for nm in self.names if 'param' in self.u(c, nm)]
            fname = 'f%d' % c
            self.helpers.append(fname)
            plist = [self.cn[nm] for nm in params]
            if 'hdr' in self.deco and self.names:
                plist.append('*va: emit(%s, %s)' % (self.T(s, self.names[0], 'load'), self.cn[self.names[0]]))
                plist.append('**kw: emit(%s, %s)' % (self.T(s, self.names[-1], 'load'), self.cn[self.names[-1]]))
            out.append(pad + 'def %s(%s):' % (fname, ', '.join(plist)))
            out += self.body(c, ind + 1)
            out += self.guarded(pad, '%s(%s)' % (fname, ', '.join(self.T(c, nm, 'param') for nm in params)))
        else:
            cname = 'C%d' % c
            self.helpers.append(cname)
            out.append(pad + 'class %s:' % cname)
            out += self.body(c, ind + 1)
        return out

    def body(self, s, ind):
        pad = '    ' * ind
        out = []
        if s == 1 and 'ann' in self.deco:
            for nm in self.names:
                if not ({'store', 'param', 'gdecl', 'ndecl'} & set(self.u(1, nm))):
                    out.append('%s: int' % self.cn[nm])
        if s != 1:
            out.append(pad + 'emit(%d, 0)' % self.marker(s))
        for how, kw in (('gdecl', 'global'), ('ndecl', 'nonlocal')):
            declared = [nm for nm in self.names if how in self.u(s, nm)]
            if declared:
                # one statement for all names declared this way (a statement that names two bindings)
                out.append(pad + kw + ' ' + ', '.join(self.cn[nm] for nm in declared))
                for nm in declared:
                    self.decl.append({'scope': s, 'name': nm, 'how': how})

        if 'del' in self.deco and s != 1 and self.kind[s - 1] == 'f':
            for nm in self.names:
                if 'gdecl' in self.u(s, nm) and 'store' not in self.u(s, nm):
                    self.del_tags.append(int(self.T(s, nm, 'load')))
                    out += [pad + 'try: del ' + self.cn[nm], pad + 'except NameError: emit(-2, 0)']

        def loads():
            r = []
            for nm in self.names:
                if 'load' in self.u(s, nm):
                    for _rep in range(3 if nm in self.heavy else 1):
                        r += self.guarded(pad, 'emit(%s, %s)' % (self.T(s, nm, 'load'), self.cn[nm]))
            return r

        def stores():
            r = []
            for nm in self.names:
                if 'store' in self.u(s, nm):
                    if self.imports and (self.import_names is None or nm in self.import_names):
                        self.import_tags.append(int(self.T(s, nm, 'store')))
                        r.append(pad + 'import %s' % self.cn[nm])
                    elif self.store == 'ann':
                        r.append(pad + '%s: int = %s' % (self.cn[nm], self.T(s, nm, 'store')))
                    elif self.store == 'for':
                        r.append(pad + 'for %s in [%s]: pass' % (self.cn[nm], self.T(s, nm, 'store')))
                    elif self.store == 'with':
                        r.append(pad + 'with emit.ctx(%s) as %s: pass' % (self.T(s, nm, 'store'), self.cn[nm]))
                    elif self.store == 'tuple':
                        r.append(pad + '%s, emit.k = %s, 0' % (self.cn[nm], self.T(s, nm, 'store')))
                    elif self.store == 'def':
                        r += [pad + 'def %s(*a):' % self.cn[nm], pad + '    return %s' % self.T(s, nm, 'store')]
                    elif self.store == 'class':
                        r += [pad + 'class %s:' % self.cn[nm], pad + '    tag = %s' % self.T(s, nm, 'store')]
                    else:
                        r.append(pad + '%s = %s' % (self.cn[nm], self.T(s, nm, 'store')))
            return r
        st_lines = stores()
        if self.wrap and st_lines:
            st_lines = [pad + 'if emit.k == 0:'] + ['    ' + l for l in st_lines]
        if self.variant == 0:
            out += st_lines + loads()
        else:
            out += loads() + st_lines
        if self.witness and (s == 1 or self.kind[s - 1] == 'f'):
            out.append(pad + '%s = %s' % (self.cn['w'], self.T(s, 'w', 'store')))
            out.append(pad + 'emit(%s, %s)' % (self.T(s, 'w', 'load'), self.cn['w']))
        if s == 1 and self.taint:
            out.append(pad + "emit(-7, eval('1'))")
        for c in self.kids[s]:
            k = self.kind[c - 1]
            if self.place and k in ('f', 'c'):
                head = {'except': ['try: raise KeyError()', 'except KeyError:'], 'match': ['match 0:', '    case _:'], 'with': ['with emit.ctx(0):'],
                        'finally': ['try: pass', 'finally:'], 'loopelse': ['for emit.k in []: pass', 'else:']}[self.place]
                out += [pad + h for h in head]
                inner = len(head[-1]) - len(head[-1].lstrip()) + 4
                sub = self._child(s, c, k, ind)
                out += [' ' * inner + l for l in sub]
                continue
            if k == 'f':
                out += self._child(s, c, k, ind)
                continue
            if k == 'f':
                params = [nm for nm in self.names if 'param' in self.u(c, nm)]
                fname = 'f%d' % c
                self.helpers.append(fname)
                plist = [self.cn[nm] for nm in params]
                if 'hdr' in self.deco and self.names:
                    plist.append('*va: emit(%s, %s)' % (self.T(s, self.names[0], 'load'), self.cn[self.names[0]]))
                    plist.append('**kw: emit(%s, %s)' % (self.T(s, self.names[-1], 'load'), self.cn[self.names[-1]]))
                out.append(pad + 'def %s(%s):' % (fname, ', '.join(plist)))
                out += self.body(c, ind + 1)
                out += self.guarded(pad, '%s(%s)' % (fname, ', '.join(self.T(c, nm, 'param') for nm in params)))
            elif k == 'c':
                cname = 'C%d' % c
                self.helpers.append(cname)
                out.append(pad + 'class %s:' % cname)
                out += self.body(c, ind + 1)
            elif self.place:
                out += self.guarded(pad, 'emit.ident(value=%s)' % self.expr(c))
            else:
                out += self.guarded(pad, self.expr(c))
        if self.variant == 0 and any('load' in self.u(s, nm) for nm in self.names) and self.kids[s]:
            # read once more after the children ran (they may have rebound globals / cells)
            for nm in self.names:
                if 'load' in self.u(s, nm):
                    self.tag += 1
                    self.occ.append({'tag': self.tag, 'scope': s, 'name': nm, 'how': 'load'})
                    out += self.guarded(pad, 'emit(%d, %s)' % (self.tag, self.cn[nm]))
        if not out or out[-1].rstrip().endswith(':'):
            out.append(pad + 'pass')
        return out


def read_back(out_src, conc):
    """spelling of every tagged occurrence and declaration in the minified output; None if something cannot be found"""
    t = ast.parse(out_src)
    found = {}
    scope_nodes = {}

    def marker_of(call):
        if (isinstance(call, ast.Call) and isinstance(call.func, ast.Name) and call.func.id == 'emit' and len(call.args) == 2
                and isinstance(call.args[0], ast.Constant) and isinstance(call.args[0].value, int) and call.args[0].value >= 9000):
            return call.args[0].value - 9000
        return None
    for node in ast.walk(t):
        if isinstance(node, ast.Call) and isinstance(node.func, ast.Name) and node.func.id == 'emit' and len(node.args) == 2 \
                and isinstance(node.args[0], ast.Constant) and isinstance(node.args[1], ast.Name):
            found[node.args[0].value] = node.args[1].id
        elif isinstance(node, ast.Assign) and isinstance(node.value, ast.Constant) and len(node.targets) == 1 and isinstance(node.targets[0], ast.Name) \
                and node.targets[0].id != 'tag':
            found[node.value.value] = node.targets[0].id
        elif isinstance(node, ast.AnnAssign) and isinstance(node.value, ast.Constant) and isinstance(node.target, ast.Name):
            found[node.value.value] = node.target.id
        elif isinstance(node, ast.FunctionDef) and node.args.vararg is not None and not node.args.args and len(node.body) == 1 and isinstance(node.body[0], ast.Return) \
                and isinstance(node.body[0].value, ast.Constant):
            found[node.body[0].value.value] = node.name           # a store spelled as a def statement
        elif isinstance(node, ast.ClassDef) and len(node.body) == 1 and isinstance(node.body[0], ast.Assign) and isinstance(node.body[0].value, ast.Constant) \
                and isinstance(node.body[0].targets[0], ast.Name) and node.body[0].targets[0].id == 'tag':
            found[node.body[0].value.value] = node.name           # a store spelled as a class statement
        elif isinstance(node, ast.For) and isinstance(node.iter, ast.List) and node.iter.elts and isinstance(node.iter.elts[0], ast.Constant) and isinstance(node.target, ast.Name):
            found[node.iter.elts[0].value] = node.target.id
        elif isinstance(node, ast.With) and len(node.items) == 1 and isinstance(node.items[0].context_expr, ast.Call) and node.items[0].context_expr.args \
                and isinstance(node.items[0].context_expr.args[0], ast.Constant) and isinstance(node.items[0].optional_vars, ast.Name):
            found[node.items[0].context_expr.args[0].value] = node.items[0].optional_vars.id
        elif isinstance(node, ast.Assign) and len(node.targets) == 1 and isinstance(node.targets[0], ast.Tuple) and isinstance(node.value, ast.Tuple) \
                and node.value.elts and isinstance(node.value.elts[0], ast.Constant) and isinstance(node.targets[0].elts[0], ast.Name):
            found[node.value.elts[0].value] = node.targets[0].elts[0].id
        elif isinstance(node, ast.NamedExpr) and isinstance(node.value, ast.Constant):
            found[node.value.value] = node.target.id
        elif isinstance(node, ast.comprehension) and isinstance(node.iter, ast.List) and node.iter.elts and isinstance(node.iter.elts[0], ast.Constant) \
                and isinstance(node.target, ast.Name):
            found[node.iter.elts[0].value] = node.target.id
        if isinstance(node, (ast.FunctionDef, ast.ClassDef)):
            for st in node.body:
                if isinstance(st, ast.Expr) and marker_of(st.value) is not None:
                    scope_nodes[marker_of(st.value)] = node
                    break
        if isinstance(node, ast.Lambda) and isinstance(node.body, ast.Tuple) and node.body.elts and marker_of(node.body.elts[0]) is not None:
            scope_nodes[marker_of(node.body.elts[0])] = node
    # alias-less imports of the generated program, in document order
    if conc.import_tags:
        imps = []

        def order(node):
            for ch in ast.iter_child_nodes(node):
                if isinstance(ch, ast.Import):
                    for a in ch.names:
                        if a.name in conc.cn.values():
                            imps.append(a.asname or a.name)
                order(ch)
        order(t)
        if len(imps) != len(conc.import_tags):
            return None, None
        for tag, nm in zip(conc.import_tags, imps):
            found[tag] = nm
    if conc.del_tags:
        dels = []

        def order_del(node):
            for ch in ast.iter_child_nodes(node):
                if isinstance(ch, ast.Delete) and len(ch.targets) == 1 and isinstance(ch.targets[0], ast.Name):
                    dels.append(ch.targets[0].id)
                order_del(ch)
        order_del(t)
        if len(dels) != len(conc.del_tags):
            return None, None
        for tag, nm in zip(conc.del_tags, dels):
            found[tag] = nm
    # parameters: k-th parameter of the scope's function, matched through the call-site tag order
    for s in range(2, conc.n + 1):
        if conc.kind[s - 1] in ('f', 'l'):
            params = [o for o in conc.occ if o['scope'] == s and o['how'] == 'param']
            node = scope_nodes.get(s)
            if params and node is None:
                return None, None
            if node is not None:
                args = node.args.posonlyargs + node.args.args
                if len(args) != len(params):
                    return None, None
                for o, a in zip(params, args):
                    found[o['tag']] = a.arg
    decl_out = []
    for d in conc.decl:
        node = scope_nodes.get(d['scope'])
        if node is None:
            return None, None
        cls = ast.Global if d['how'] == 'gdecl' else ast.Nonlocal
        names_in = [x['name'] for x in conc.decl if x['scope'] == d['scope'] and x['how'] == d['how']]
        names_out = []
        for st in node.body:
            if isinstance(st, cls):
                names_out += st.names
        if len(names_out) != len(names_in):
            return None, None
        decl_out.append(names_out[names_in.index(d['name'])])
    if any(o['tag'] not in found for o in conc.occ):
        return None, None
    aliases = []
    for sc, node in scope_nodes.items():
        if isinstance(node, ast.FunctionDef):
            pnames = set(a.arg for a in node.args.posonlyargs + node.args.args)
            for st in node.body:
                if isinstance(st, ast.Assign) and len(st.targets) == 1 and isinstance(st.targets[0], ast.Name) and isinstance(st.value, ast.Name) \
                        and st.value.id in pnames:
                    aliases.append({'scope': sc, 'new': st.targets[0].id, 'old': st.value.id})
                elif isinstance(st, ast.Expr) and marker_of(st.value) is not None:
                    break
                else:
                    break
    found['__aliases__'] = aliases
    return found, decl_out


def run_logged(src):
    log = []

    def emit(tag, value):
        log.append((tag, value if isinstance(value, int) else 0))
        return value
    emit.k = 0
    import contextlib

    @contextlib.contextmanager
    def ctx(v):
        yield v
    emit.ctx = ctx
    emit.ident = lambda value=None: value
    ns = {'emit': emit, '__name__': 'scopeprog'}
    import types
    fake = [n for n in ('xx', 'yy', 'A', 'B') if n not in sys.modules]
    for n in fake:
        sys.modules[n] = types.ModuleType(n)
    try:
        exec(compile(src, 'scopeprog', 'exec'), ns)
        exc = ''
    except BaseException as e:  # noqa
        exc = type(e).__name__
    finally:
        for n in fake:
            sys.modules.pop(n, None)
    return log, exc


def observe(job):
    """job: {id, p, variant, opts: {rl, rg, taint, presL, presG}}.  Returns the Trace_Rename observation record (or a skip marker)."""
    import python_minifier
    o = job['opts']
    conc = Conc(job['p'], variant=job.get('variant', 0), taint=o.get('taint', False), names=job.get('names'), imports=job.get('imports', False), heavy=job.get('heavy', ()), listcomp=job.get('listcomp', False), store=job.get('store'), witness=job.get('witness', False), wrap=job.get('wrap', False), deco=job.get('deco', ()), place=job.get('place'))
    src = conc.src
    try:
        compile(src, 'in', 'exec')
    except SyntaxError as e:
        return {'id': job['id'], 'skip': 'input-does-not-compile', 'src': src, 'msg': str(e)}
    helpers = sorted(set(conc.helpers + ['NameError', 'eval']))
    pl = list(helpers) + [conc.cn[n] for n in o.get('presL', [])]
    pg = list(helpers) + [conc.cn[n] for n in o.get('presG', [])]
    extra = {}
    if 'hdr' in conc.deco:
        extra['remove_annotations'] = False          # the reads under test are in annotations: they have to stay
    if conc.store == 'ann':
        # every kind of annotation removal on, so that the annotated assignments are rebuilt as plain ones (also in class bodies)
        from python_minifier.transforms.remove_annotations_options import RemoveAnnotationsOptions
        extra['remove_annotations'] = RemoveAnnotationsOptions(True, True, True, True)
    try:
        out = python_minifier.minify(src, rename_locals=o['rl'], rename_globals=o['rg'], preserve_locals=pl, preserve_globals=pg,
                                     hoist_literals=False, constant_folding=False, remove_pass=False, combine_imports=False, **extra)
    except BaseException as e:  # noqa
        return {'id': job['id'], 'skip': 'minify-raised', 'src': src, 'msg': type(e).__name__ + ': ' + str(e)[:100]}
    try:
        compile(out, 'out', 'exec')
        comp = True
    except SyntaxError:
        comp = False
    found, decl_out = read_back(out, conc)
    if found is None:
        return {'id': job['id'], 'skip': 'projection-failed', 'src': src, 'out': out}
    run_equal = True
    if comp:
        a = run_logged(src)
        b = run_logged(out)
        run_equal = (a == b)
    inv = {v: k for k, v in conc.cn.items()}
    aliases = found.pop('__aliases__')

    def first_in_class(x):
        s_ = x['scope']
        if x['how'] != 'param' or conc.kind[s_ - 1] != 'f' or conc.kind[conc.par[s_ - 1] - 1] != 'c':
            return False
        params = [o2 for o2 in conc.occ if o2['scope'] == s_ and o2['how'] == 'param']
        return bool(params) and params[0]['tag'] == x['tag']
    rec = {'id': job['id'], 'par': conc.par, 'kind': conc.kind, 'compiles': comp, 'run_equal': run_equal,
           'rl': bool(o['rl']), 'rg': bool(o['rg']), 'tainted': bool(o.get('taint', False)),
           'presL': list(o.get('presL', [])), 'presG': list(o.get('presG', [])),
           'occ': [{'scope': x['scope'], 'name': x['name'], 'how': x['how'], 'out': inv.get(found[x['tag']], found[x['tag']]),
                    'self_param': first_in_class(x)} for x in conc.occ],
           'alias': [{'scope': a['scope'], 'new': inv.get(a['new'], a['new']), 'old': inv.get(a['old'], a['old'])} for a in aliases],
           'decl': [{'scope': d['scope'], 'name': d['name'], 'how': d['how'], 'out': inv.get(n2, n2)} for d, n2 in zip(conc.decl, decl_out)],
           'src': src, 'out_src': out}
    # names of the program that are spelled like a taint trigger (eval, exec, ...): Trace_Rename.tla decides whether one of them reaches the builtin
    trig = [k for k, v in conc.cn.items() if v in ('eval', 'exec', 'locals', 'globals', 'vars')]
    if trig:
        rec['trigger_names'] = sorted(trig)
    return rec


# ---------------------------------------------------------------------------------------------------------------------------------
def py2_compatible(p):
    """no nonlocal declarations and no assignment expressions (neither exists on 2.x)"""
    return not any(h in ('ndecl', 'walrus') for u in p['uses'] for hs in u.values() for h in hs)


def _first_in_class(conc, x):
    """the first parameter of a function defined directly in a class body (self): documented as renamable"""
    s_ = x['scope']
    if x['how'] != 'param' or conc.kind[s_ - 1] != 'f' or conc.kind[conc.par[s_ - 1] - 1] != 'c':
        return False
    params = [o2 for o2 in conc.occ if o2['scope'] == s_ and o2['how'] == 'param']
    return bool(params) and params[0]['tag'] == x['tag']


def observe_remote(version, jobs, procs=8):
    """the same observation with minify() running under another interpreter (through harness/worker.py).  For 2.x the comprehension scopes of a
    program are written as list comprehensions, which have NO scope of their own there: their occurrences are re-attributed to the scope the
    comprehension stands in before the record is judged (the projection of the abstract program onto what it means on 2.x)."""
    from . import pool, inputs
    import base64
    concs = {}
    reqs = []
    for job in jobs:
        o = job['opts']
        conc = Conc(job['p'], variant=job.get('variant', 0), taint=o.get('taint', False), names=job.get('names'), heavy=job.get('heavy', ()),
                    listcomp=True, store=job.get('store'), witness=job.get('witness', False), wrap=job.get('wrap', False))
        helpers = sorted(set(conc.helpers + ['NameError', 'eval']))
        opts = dict(rename_locals=o['rl'], rename_globals=o['rg'], preserve_locals=helpers + [conc.cn[n] for n in o.get('presL', [])],
                    preserve_globals=helpers + [conc.cn[n] for n in o.get('presG', [])], hoist_literals=False, constant_folding=False, remove_pass=False,
                    combine_imports=False)
        concs[job['id']] = (conc, job)
        reqs.append({'op': 'minify', 'id': job['id'], 'src_b64': inputs.b64(conc.src.encode()), 'as_bytes': False, 'opts': opts})
    res = pool.run_requests(version, reqs, procs=procs, timeout=300)
    out = []
    for rid, (conc, job) in concs.items():
        a = res.get(rid, {})
        if 'worker_error' in a or not a:
            out.append({'id': rid, 'skip': 'worker-error'})
            continue
        if not a.get('compiles'):
            out.append({'id': rid, 'skip': 'input-does-not-compile', 'src': conc.src})
            continue
        if a.get('outcome') != 'return':
            out.append({'id': rid, 'skip': 'minify-raised', 'src': conc.src, 'msg': a.get('outcome', '') + ' ' + str(a.get('msg', ''))[:100]})
            continue
        text = base64.b64decode(a['out_b64']).decode('utf-8')
        try:
            found, decl_out = read_back(text, conc)
        except SyntaxError:
            found = None
        if found is None:
            out.append({'id': rid, 'skip': 'projection-failed', 'src': conc.src, 'out': text})
            continue
        aliases = found.pop('__aliases__')
        inv = {v: k for k, v in conc.cn.items()}
        o = job['opts']

        def land(s):
            # on 2.x a list comprehension is not a scope: what is written in it happens in the scope it stands in
            while version.startswith('2') and conc.kind[s - 1] == 'g':
                s = conc.par[s - 1]
            return s
        rec = {'id': rid, 'par': conc.par, 'kind': conc.kind, 'compiles': bool(a.get('compiles_out', True)), 'run_equal': True,
               'rl': bool(o['rl']), 'rg': bool(o['rg']), 'tainted': bool(o.get('taint', False)), 'presL': list(o.get('presL', [])), 'presG': list(o.get('presG', [])),
               'occ': [{'scope': land(x['scope']), 'name': x['name'], 'how': x['how'], 'out': inv.get(found[x['tag']], found[x['tag']]),
                        'self_param': _first_in_class(conc, x)} for x in conc.occ],
               'alias': [{'scope': al['scope'], 'new': inv.get(al['new'], al['new']), 'old': inv.get(al['old'], al['old'])} for al in aliases],
               'decl': [{'scope': d['scope'], 'name': d['name'], 'how': d['how'], 'out': inv.get(n2, n2)} for d, n2 in zip(conc.decl, decl_out)],
               'src': conc.src, 'out_src': text}
        out.append(rec)
    return out
