"""Source-text templates for the expression kinds and slots named in spec/PrinterS.tla.

A chain is rendered as *text* (never as a hand-built tree): slot.format(child) with the child either bare or
parenthesised; the fully parenthesised rendering defines the intended tree.  Everything is wrapped in
`async def f():` so that await / yield are legal (yield inside async def makes an async generator; yield from
is rendered in a plain def)."""

KIND_TEXT = {
    'name': 'a', 'int': '1', 'float': '1.5', 'imag': '2j', 'str': "'s'", 'bytes': "b'b'", 'fstr': "f'{x}t'",
    'none': 'None', 'true': 'True', 'ellipsis': '...', 'list': '[x, y]', 'set': '{x}', 'dict': '{x: y, **z}',
    'listcomp': '[x for i in y if z]', 'setcomp': '{x for i in y}', 'dictcomp': '{x: y for i in z}', 'genexp': '(x for i in y)',
    'tuple0': '()',
    'call': 'x(y)', 'attr': 'x.b', 'sub': 'x[y]', 'slice': 'x[y::z]',
    'await': 'await x', 'pow': 'x ** y', 'uadd': '+x', 'usub': '-x', 'invert': '~x', 'negint': '-1',
    'mult': 'x * y', 'div': 'x / y', 'floordiv': 'x // y', 'mod': 'x % y', 'matmult': 'x @ y',
    'add': 'x + y', 'sub_': 'x - y', 'lshift': 'x << y', 'rshift': 'x >> y', 'bitand': 'x & y', 'bitxor': 'x ^ y', 'bitor': 'x | y',
    'eq': 'x == y', 'lt': 'x < y', 'is': 'x is y', 'isnot': 'x is not y', 'in': 'x in y', 'notin': 'x not in y', 'cmpchain': 'x < y in z',
    'not': 'not x', 'and': 'x and y', 'or': 'x or y', 'ifexp': 'y if x else z', 'lambda': 'lambda: x', 'lambda1': 'lambda p=y: x',
    'tuple1': 'x,', 'tuple2': 'x, y', 'startuple1': '*x,', 'startuple2': '*x, y', 'walrus': 'w := x', 'yield': 'yield x', 'yield0': 'yield', 'yieldfrom': 'yield from x',
    'starred': '*x',
}

# slot -> (statement template with {} for the child, wrapper: 'async' | 'def' | 'module')
SLOT_TEXT = {}


def _s(name, tmpl, wrap='async'):
    SLOT_TEXT[name] = (tmpl, wrap)


for _op, _sym in [('add', '+'), ('sub_', '-'), ('mult', '*'), ('div', '/'), ('floordiv', '//'), ('mod', '%'), ('matmult', '@'), ('pow', '**'),
                  ('lshift', '<<'), ('rshift', '>>'), ('bitand', '&'), ('bitxor', '^'), ('bitor', '|')]:
    _s(_op + '.left', 'r = {} %s b' % _sym)
    _s(_op + '.right', 'r = a %s {}' % _sym)
_s('uadd.operand', 'r = +{}')
_s('usub.operand', 'r = -{}')
_s('invert.operand', 'r = ~{}')
_s('not.operand', 'r = not {}')
for _op in ('or', 'and'):
    _s(_op + '.first', 'r = {} %s b' % _op)
    _s(_op + '.second', 'r = a %s {}' % _op)
    _s(_op + '.middle', 'r = a %s {} %s c' % (_op, _op))
for _op, _sym in [('eq', '=='), ('is', 'is'), ('in', 'in'), ('notin', 'not in')]:
    _s(_op + '.left', 'r = {} %s b' % _sym)
    _s(_op + '.right', 'r = a %s {}' % _sym)
_s('isnot.right', 'r = a is not {}')
_s('cmpchain.middle', 'r = a < {} > c')
_s('ifexp.body', 'r = {} if a else c')
_s('ifexp.test', 'r = b if {} else c')
_s('ifexp.orelse', 'r = b if a else {}')
_s('lambda.body', 'r = lambda: {}')
_s('lambda.default', 'r = lambda p={}: a')
_s('call.func', 'r = {}(b)')
_s('call.arg', 'r = a({})')
_s('call.arg2', 'r = a({}, b)')
_s('call.kw', 'r = a(k={})')
_s('call.kwstar', 'r = a(**{})')
_s('call.star', 'r = a(*{})')
_s('attr.value', 'r = {}.b')
_s('sub.value', 'r = {}[b]')
_s('sub.index', 'r = a[{}]')
_s('slice.lower', 'r = a[{}:]')
_s('slice.upper', 'r = a[:{}]')
_s('slice.step', 'r = a[::{}]')
_s('subtuple.elt', 'r = a[{}, b]')
_s('tuple.elt', 'r = ({}, b)')
_s('tuple1.elt', 'r = ({},)')
_s('list.elt', 'r = [{}, b]')
_s('set.elt', 'r = {{{}}}')
_s('dict.key', 'r = {{{}: b}}')
_s('dict.value', 'r = {{a: {}}}')
_s('dict.unpack', 'r = {{**{}}}')
_s('star.list', 'r = [*{}]')
_s('listcomp.elt', 'r = [{} for i in b]')
_s('genexp.elt', 'r = ({} for i in b)')
_s('dictcomp.key', 'r = {{{}: a for i in b}}')
_s('dictcomp.value', 'r = {{a: {} for i in b}}')
_s('comp.iter', 'r = [a for i in {}]')
_s('comp.iter2', 'r = [a for i in b for j in {}]')
_s('comp.if', 'r = [a for i in b if {}]')
_s('comp.if2', 'r = [a for i in b if {} if c]')
_s('await.value', 'r = await {}')
_s('yield.value', 'r = yield {}')
_s('yieldfrom.value', 'r = yield from {}', 'def')
_s('walrus.value', 'r = (w := {})')
_s('fstr.value', "r = f'{{{}}}'")
_s('fstr.value.conv', "r = f'{{{}!r}}'")
_s('fstr.value.spec', "r = f'{{{}:>3}}'")
_s('fstr.spec.value', "r = f'{{a:{{{}}}}}'")
_s('expr', '{}')
_s('assign.value', 'r = {}')
_s('augassign.value', 'r += {}')
_s('annassign.value', 'r: a = {}')
_s('annassign.ann', 'r: {}')
_s('return', 'return {}', 'def')
_s('if.test', 'if {}: pass')
_s('while.test', 'while {}: pass')
_s('elif.test', 'if a: pass\n    elif {}: pass')
_s('for.iter', 'for t in {}: pass')
_s('with.ctx', 'with {}: pass')
_s('with.ctx.as', 'with {} as t: pass')
_s('with.ctx2', 'with {}, b: pass')
_s('raise.exc', 'raise {}')
_s('raise.cause', 'raise a from {}')
_s('assert.test', 'assert {}')
_s('assert.msg', 'assert a, {}')
_s('decorator', '@{}\n    def g(): pass')
_s('def.default', 'def g(p={}): pass')
_s('def.kwdefault', 'def g(*, p={}): pass')
_s('def.ann', 'def g(p: {}): pass')
_s('def.returns', 'def g() -> {}: pass')
_s('class.base', 'class K({}): pass')
_s('class.kw', 'class K(m={}): pass')
_s('match.subject', 'match {}:\n        case _: pass')
_s('match.guard', 'match a:\n        case _ if {}: pass')
_s('typealias.value', 'type A = {}')
_s('del.sub', 'del {}[b]')
_s('assign.target.attr', '{}.b = r')

# kinds that own slots (for depth-2 chains): kind -> slot of its first operand
KIND_FIRST_SLOT = {
    'call': 'call.func', 'attr': 'attr.value', 'sub': 'sub.value', 'await': 'await.value', 'pow': 'pow.left', 'uadd': 'uadd.operand',
    'usub': 'usub.operand', 'invert': 'invert.operand', 'mult': 'mult.left', 'div': 'div.left', 'add': 'add.left', 'sub_': 'sub_.left',
    'lshift': 'lshift.left', 'bitand': 'bitand.left', 'bitxor': 'bitxor.left', 'bitor': 'bitor.left', 'eq': 'eq.left', 'is': 'is.left',
    'in': 'in.left', 'notin': 'notin.left', 'not': 'not.operand', 'and': 'and.first', 'or': 'or.first', 'ifexp': 'ifexp.test',
    'lambda': 'lambda.body', 'tuple1': None, 'tuple2': None, 'walrus': 'walrus.value', 'yield': 'yield.value', 'starred': None,
    'list': 'list.elt', 'set': 'set.elt', 'listcomp': 'listcomp.elt', 'genexp': 'genexp.elt', 'fstr': 'fstr.value',
}


def kind_text(kind, inner=None):
    """text of a kind; with inner, its operand `x` is replaced by the parenthesised inner text"""
    t = KIND_TEXT[kind]
    if inner is None:
        return t
    # replace the first standalone x
    import re
    return re.sub(r'\bx\b', lambda m: '(' + inner + ')', t, count=1)


def _is_bare_tuple(t):
    return t in (KIND_TEXT['tuple1'], KIND_TEXT['tuple2'], KIND_TEXT['startuple1'], KIND_TEXT['startuple2']) or t.startswith('(x),') or t.startswith('(x), ')


def render(slot, child_text, parens, tuple_child=False):
    tmpl, wrap = SLOT_TEXT[slot]
    if parens:
        inner = '(' + child_text + ')'
        if slot in ('with.ctx', 'with.ctx2') and (tuple_child or _is_bare_tuple(child_text)):
            inner = '(' + inner + ')'       # with (a, b): is a list of items; the tuple needs its own pair
    else:
        inner = child_text
        if slot.startswith('fstr.') and inner.startswith('{'):
            inner = ' ' + inner             # '{{' would be an escaped brace: lexical, not a matter of parentheses
    body = tmpl.format(inner)
    if wrap == 'module':
        return body + '\n'
    head = 'async def f():\n    ' if wrap == 'async' else 'def f():\n    '
    return head + body + '\n'
