"""Programs that rebind a builtin name which a safe transform treats specially: `object` as a base class (remove_object_base) and a builtin
exception raised with empty brackets (remove_builtin_exception_brackets).  Each program reports what the class inherits from / what is raised."""

OTHER = {'object': 'dict', 'ValueError': '(lambda: KeyError("made"))'}

REBIND = {
    'none': '',
    'assign': '{N} = {O}\n',
    'assign-late': '',          # the rebinding follows the use site's definition but precedes its execution (function use site only)
    'import-as': {'object': 'from collections import OrderedDict as object\n', 'ValueError': 'from functools import partial as ValueError\nValueError = ValueError(KeyError, "made")\n'},
    'def': {'object': 'class object(dict):\n    pass\n', 'ValueError': 'def ValueError():\n    return KeyError("made")\n'},
    'global-in-function': 'def rebind():\n    global {N}\n    {N} = {O}\nrebind()\n',
    'for-target': 'for {N} in ({O},):\n    pass\n',
    'with-target': 'with emit.ctx({O}) as {N}:\n    pass\n',
    'conditional': 'if emit("c"):\n    {N} = {O}\n',
    'walrus': '({N} := {O})\n',
    'augmented-namespace': 'globals()["{N}"] = {O}\n',
}

USE = {
    'object': {
        'module': 'class K(object):\n    pass\nemit([c.__name__ for c in K.__mro__[1:]])\n',
        'function': 'def make():\n    class K(object):\n        pass\n    return K\nemit([c.__name__ for c in make().__mro__[1:]])\n',
        'parameter': 'def make(object):\n    class K(object):\n        pass\n    return K\nemit([c.__name__ for c in make(dict).__mro__[1:]])\n',
        'local': 'def make():\n    object = dict\n    class K(object):\n        pass\n    return K\nemit([c.__name__ for c in make().__mro__[1:]])\n',
        'class-attribute': 'class Outer:\n    object = dict\n    class K(object):\n        pass\nemit([c.__name__ for c in Outer.K.__mro__[1:]])\n',
        'second-base': 'class Mixin:\n    pass\nclass K(Mixin, object):\n    pass\nemit([c.__name__ for c in K.__mro__[1:]])\n',
    },
    'ValueError': {
        'module': 'try:\n    raise ValueError()\nexcept BaseException as e:\n    emit([type(e).__name__, e.args])\n',
        'function': 'def thrower():\n    raise ValueError()\ntry:\n    thrower()\nexcept BaseException as e:\n    emit([type(e).__name__, e.args])\n',
        'parameter': 'def thrower(ValueError):\n    raise ValueError()\ntry:\n    thrower(lambda: KeyError("made"))\nexcept BaseException as e:\n    emit([type(e).__name__, e.args])\n',
        'local': 'def thrower():\n    ValueError = lambda: KeyError("made")\n    raise ValueError()\ntry:\n    thrower()\nexcept BaseException as e:\n    emit([type(e).__name__, e.args])\n',
        'class-attribute': 'class Outer:\n    ValueError = lambda: KeyError("made")\n    try:\n        raise ValueError()\n    except BaseException as e:\n        emit([type(e).__name__, e.args])\n',
        'cause': 'try:\n    raise KeyError("k") from ValueError()\nexcept BaseException as e:\n    emit([type(e).__name__, type(e.__cause__).__name__, e.__cause__.args])\n',
    },
}


def programs():
    """(id, source, kind): kind = shadow:<name>:<rebinding>:<use site>"""
    out = []
    for name in ('object', 'ValueError'):
        for how, text in REBIND.items():
            for site, use in USE[name].items():
                if how == 'assign-late':
                    if site != 'function':
                        continue
                    src = use.replace('emit([', '%s = %s\nemit([' % (name, OTHER[name]), 1) if name == 'object' else use.replace('try:\n    thrower()', '%s = %s\ntry:\n    thrower()' % (name, OTHER[name]))
                else:
                    if isinstance(text, dict):
                        text_n = text[name]
                    else:
                        text_n = text.replace('{N}', name).replace('{O}', OTHER[name])
                    src = text_n + use
                out.append(('shadow-%s-%s-%s' % (name, how, site), src, 'shadow:%s:%s:%s' % (name, how, site)))
    return out
