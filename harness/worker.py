# -*- coding: utf-8 -*-
"""Multi-version worker: runs under CPython 2.7 ... 3.13 with the standard library only.

Protocol: one JSON object per line on stdin -> one JSON object per line on stdout.
The minifier is imported from $VERIF_REPO_SRC (default /repo/src), never from site-packages.
Everything the checks need from "the interpreter as ground truth" is computed here, by CPython
itself: parse / compile / strict tree identity / evaluation / execution with captured output.
"""
from __future__ import print_function

import ast
import base64
import json
import math
import os
import sys

sys.dont_write_bytecode = True
sys.path.insert(0, os.environ.get('VERIF_REPO_SRC', '/repo/src'))
sys.setrecursionlimit(3000)

PY2 = sys.version_info[0] == 2
if PY2:
    text_type = unicode  # noqa: F821
    from StringIO import StringIO
else:
    text_type = str
    from io import StringIO

import python_minifier  # noqa: E402
from python_minifier.module_printer import ModulePrinter  # noqa: E402

OPT_NAMES = ['remove_pass', 'remove_literal_statements', 'combine_imports', 'hoist_literals', 'rename_locals',
             'rename_globals', 'remove_object_base', 'convert_posargs_to_args', 'preserve_shebang', 'remove_asserts',
             'remove_debug', 'remove_explicit_return_none', 'remove_builtin_exception_brackets', 'constant_folding']


def b64d(s):
    return base64.b64decode(s.encode('ascii'))


def b64e(b):
    return base64.b64encode(b).decode('ascii')


def get_source(req):
    """source bytes (always) and the object handed to minify (text or bytes as requested)."""
    raw = b64d(req['src_b64'])
    if req.get('as_bytes') or PY2:
        return raw, raw
    return raw, raw.decode(req.get('decode', 'utf-8'), 'surrogatepass' if not PY2 else 'strict')


def build_opts(o):
    kw = {}
    for k, v in (o or {}).items():
        if k == 'remove_annotations' and isinstance(v, dict):
            from python_minifier.transforms.remove_annotations_options import RemoveAnnotationsOptions
            kw[str(k)] = RemoveAnnotationsOptions(**dict((str(a), b) for a, b in v.items()))
        elif k in ('preserve_locals', 'preserve_globals') and isinstance(v, list):
            kw[str(k)] = [str(x) if PY2 else x for x in v]
        elif k in ('preserve_locals', 'preserve_globals') and isinstance(v, dict):
            # {'native': name}: a single name as the interpreter's `str`; a plain JSON string arrives as the text type (`unicode` on 2.x)
            kw[str(k)] = str(v['native'])
        else:
            kw[str(k)] = v
    return kw


# ---------------------------------------------------------------------------------------------
# strict tree identity (C02): type, value, sign of zero, complex parts; ignores positions and `kind`

def _const(v):
    t = type(v).__name__
    if isinstance(v, float):
        if v != v:
            return [t, 'nan']
        return [t, repr(v), math.copysign(1.0, v) < 0]
    if isinstance(v, complex):
        return [t, _const(v.real), _const(v.imag)]
    if v is Ellipsis:
        return [t, '...']
    if isinstance(v, (tuple, frozenset)):
        return [t] + [_const(x) for x in (v if isinstance(v, tuple) else sorted(v, key=repr))]
    if isinstance(v, bytes) and not PY2:
        return [t, b64e(v)]
    if isinstance(v, bool) or v is None:
        return [t, repr(v)]
    if isinstance(v, int) or (PY2 and isinstance(v, long)):  # noqa: F821
        return [t, hex(v)]          # repr() of a huge int hits the interpreter's digit limit
    if PY2 and isinstance(v, str):
        return [t, b64e(v)]
    if isinstance(v, text_type):
        return [t, b64e(v.encode('utf-8', 'surrogatepass') if not PY2 else v.encode('utf-8'))]
    return [t, repr(v)]


SKIP_FIELDS = ('kind', 'type_comment', 'type_ignores', 'ctx')


def strict_dump(node):
    if isinstance(node, ast.AST):
        out = [node.__class__.__name__]
        for f in node._fields:
            if f in SKIP_FIELDS:
                continue
            if not hasattr(node, f):
                out.append([f, None])
                continue
            out.append([f, strict_dump(getattr(node, f))])
        if isinstance(node, ast.Name) or node.__class__.__name__ in ('Attribute', 'Subscript', 'Starred', 'List', 'Tuple'):
            out.append(['ctx', node.ctx.__class__.__name__])
        return out
    if isinstance(node, list):
        return [strict_dump(x) for x in node]
    return _const(node)


def dump_key(tree):
    return json.dumps(strict_dump(tree), sort_keys=True)


def first_diff(a, b, path='root'):
    if type(a) != type(b):
        return path + ': ' + repr(a)[:80] + ' != ' + repr(b)[:80]
    if isinstance(a, list):
        if len(a) != len(b):
            return path + ': len %d != %d' % (len(a), len(b))
        for i, (x, y) in enumerate(zip(a, b)):
            d = first_diff(x, y, path + '/' + (str(x[0]) if isinstance(x, list) and x and isinstance(x[0], text_type) else str(i)))
            if d:
                return d
        return None
    if a != b:
        return path + ': ' + repr(a)[:80] + ' != ' + repr(b)[:80]
    return None


def try_parse(src, filename='w'):
    try:
        return ast.parse(src, filename), None
    except SyntaxError as e:
        return None, 'SyntaxError'
    except ValueError as e:          # NUL bytes on some versions
        return None, 'ValueError'
    except (RecursionError if not PY2 else RuntimeError) as e:
        return None, 'RecursionError'
    except MemoryError:
        return None, 'MemoryError'
    except Exception as e:
        return None, type(e).__name__


def try_compile(src, filename='w'):
    try:
        compile(src, filename, 'exec', dont_inherit=True)
        return True, None
    except SyntaxError as e:
        return False, 'SyntaxError'
    except ValueError as e:
        return False, 'ValueError'
    except Exception as e:
        return False, type(e).__name__


def exc_name(e):
    return type(e).__name__


# ---------------------------------------------------------------------------------------------

def op_minify(req):
    raw, src = get_source(req)
    res = {}
    tree, perr = try_parse(src)
    res['parses'] = tree is not None
    res['parse_err'] = perr
    ok, cerr = try_compile(src) if tree is not None else (False, perr)
    res['compiles'] = ok
    kw = build_opts(req.get('opts'))
    try:
        out = python_minifier.minify(src, **kw)
        res['outcome'] = 'return'
        if PY2 and isinstance(out, str):
            out = out.decode('utf-8')
        res['out_b64'] = b64e(out.encode('utf-8', 'surrogatepass') if not PY2 else out.encode('utf-8'))
        res['out_len'] = len(out)
        ok2, cerr2 = try_compile(out if not PY2 else out.encode('utf-8'), 'out')
        res['compiles_out'] = ok2
        res['compile_out_err'] = cerr2
        if req.get('strict'):
            # strict identity between parse(out) and parse(src) (meaningful when all transforms are off)
            # the result *encoded as UTF-8* must denote the same program: parse the bytes, the way the interpreter reads a file
            # (on 2.x a file without a declaration is ASCII, so the declaration is supplied there)
            t2, perr2 = try_parse(out.encode('utf-8', 'surrogatepass') if not PY2 else (b'# -*- coding: utf-8 -*-\n' + out.encode('utf-8')))
            if t2 is None or tree is None:
                res['strict_equal'] = False
                res['strict_diff'] = 'output does not parse: %s' % perr2
            else:
                a, b = strict_dump(tree), strict_dump(t2)
                res['strict_equal'] = a == b
                if a != b:
                    res['strict_diff'] = first_diff(a, b)
    except BaseException as e:   # noqa
        res['outcome'] = 'raise:' + exc_name(e)
        res['syntaxerr'] = isinstance(e, SyntaxError)
        res['msg'] = str(e)[:200] if not PY2 else repr(e)[:200]
    return res


def op_roundtrip(req):
    """print with the real ModulePrinter (no self-check), re-parse, compare strictly."""
    raw, src = get_source(req)
    res = {}
    tree, perr = try_parse(src)
    res['parses'] = tree is not None
    if tree is None:
        res['parse_err'] = perr
        return res
    before = strict_dump(tree)
    try:
        code = ModulePrinter()(tree)
    except BaseException as e:   # noqa
        res['print'] = 'raise:' + exc_name(e)
        res['msg'] = str(e)[:200] if not PY2 else repr(e)[:200]
        return res
    res['print'] = 'ok'
    if PY2:
        if isinstance(code, str):
            code = code.decode('utf-8')
        psrc = b'# -*- coding: utf-8 -*-\n' + code.encode('utf-8')
    else:
        psrc = code
    res['code_b64'] = b64e(code.encode('utf-8', 'surrogatepass') if not PY2 else code.encode('utf-8'))
    t2, perr2 = try_parse(psrc)
    res['reparses'] = t2 is not None
    if t2 is None:
        res['reparse_err'] = perr2
        res['strict_equal'] = False
        return res
    after = strict_dump(t2)
    res['strict_equal'] = before == after
    if before != after:
        res['strict_diff'] = first_diff(before, after)
    return res


def _val(v):
    """type/value/sign description of an evaluation result, as computed by this interpreter."""
    t = type(v).__name__
    if isinstance(v, float):
        return {'type': t, 'repr': 'nan' if v != v else repr(v), 'neg': (math.copysign(1.0, v) < 0) if v == v else False}
    if isinstance(v, complex):
        return {'type': t, 'repr': repr(v), 'neg': False,
                're': _val(v.real), 'im': _val(v.imag)}
    if isinstance(v, int) and not isinstance(v, bool) and abs(v) > 10 ** 300:
        return {'type': t, 'repr': 'hexhash:%d:%s' % (v.bit_length(), hash(hex(v))), 'neg': v < 0}
    try:
        rv = repr(v)
    except Exception as e:
        rv = 'unreprable:' + exc_name(e)
    return {'type': t, 'repr': rv if len(rv) < 400 else 'hash:' + repr(hash(rv)), 'neg': False}


def _valr(v, depth=0):
    if isinstance(v, (tuple, list)) and depth < 3:
        return {'type': type(v).__name__, 'items': [_valr(x, depth + 1) for x in v]}
    return _val(v)


def op_evalmod(req):
    """exec each module text in a fresh namespace and describe the value bound to `r` (or the exception type)"""
    out = []
    for b in req['mods_b64']:
        src = b64d(b)
        if not PY2:
            src = src.decode('utf-8', 'surrogatepass')
        ns = {}
        try:
            exec(compile(src, 'm', 'exec', dont_inherit=True), ns)
            d = _valr(ns.get('r'))
            d['exc'] = ''
        except BaseException as ex:   # noqa
            d = {'type': '', 'repr': '', 'neg': False, 'exc': exc_name(ex)}
        out.append(d)
    return {'vals': out}


def op_eval(req):
    """evaluate expression texts with empty namespaces; report type/value/exception per text."""
    out = []
    for e in req['exprs']:
        try:
            v = eval(compile(e, 'e', 'eval', dont_inherit=True), {'__builtins__': {}}, {})
            d = _val(v)
            d['exc'] = ''
        except BaseException as ex:   # noqa
            d = {'type': '', 'repr': '', 'neg': False, 'exc': exc_name(ex)}
        out.append(d)
    return {'vals': out}


def op_exec(req):
    """run a program in a fresh namespace with stdout captured; report output, terminating exception type,
    and a dump of the public namespace.  optimize: 0/1 (the -O reading)."""
    raw, src = get_source(req)
    res = {}
    buf = StringIO()
    old = sys.stdout
    ns = {'__name__': '__verif_main__'}
    if req.get('emit'):
        ns['emit'] = lambda v: sys.stdout.write(repr(v) + '\n')
    try:
        code = compile(src, 'prog', 'exec', dont_inherit=True) if PY2 or 'optimize' not in req else \
            compile(src, 'prog', 'exec', dont_inherit=True, optimize=req['optimize'])
    except BaseException as e:   # noqa
        return {'compile_exc': exc_name(e)}
    sys.stdout = buf
    try:
        try:
            exec(code, ns)
            res['exc'] = ''
        except SystemExit as e:
            res['exc'] = 'SystemExit:%r' % (e.code,)
        except BaseException as e:   # noqa
            res['exc'] = exc_name(e)
    finally:
        sys.stdout = old
    res['stdout'] = buf.getvalue()[:20000]
    pub = {}
    for k in sorted(ns):
        if k.startswith('_'):
            continue
        v = ns[k]
        if isinstance(v, (int, float, str, bytes, bool, type(None), tuple, list, dict, set, frozenset, text_type)):
            try:
                pub[k] = [type(v).__name__, repr(v)[:300]]
            except Exception:
                pub[k] = [type(v).__name__, '?']
        else:
            pub[k] = [type(v).__name__ if not isinstance(v, type) else 'class', '']
    res['public'] = pub
    return res


def op_ping(req):
    return {'version': list(sys.version_info[:3]), 'minifier': os.path.dirname(python_minifier.__file__)}


OPS = {'evalmod': op_evalmod, 'minify': op_minify, 'roundtrip': op_roundtrip, 'eval': op_eval, 'exec': op_exec, 'ping': op_ping}


def main():
    stdin = sys.stdin
    out = sys.stdout
    real_out = os.fdopen(os.dup(1), 'w')
    # anything the minifier or executed programs print must not corrupt the protocol
    sys.stdout = sys.stderr
    while True:
        line = stdin.readline()
        if not line:
            break
        line = line.strip()
        if not line:
            continue
        req = json.loads(line)
        try:
            res = OPS[req['op']](req)
        except BaseException as e:   # noqa
            import traceback
            res = {'worker_error': exc_name(e) + ': ' + str(e)[:300], 'tb': traceback.format_exc()[-800:]}
        res['id'] = req.get('id')
        real_out.write(json.dumps(res) + '\n')
        real_out.flush()


if __name__ == '__main__':
    main()
