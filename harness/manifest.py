"""Generates /verif/MANIFEST.json from the table below (python -m harness.manifest) and validates it."""
import json
import os

from .common import VERIF

PY = '/venv/bin/python -W ignore'

TITLES = {
    'C01': 'Minified module behaves exactly like the original (safe options)',
    'C02': 'Printed source re-parses to exactly the same syntax tree',
    'C03': 'Renaming preserves which binding every name refers to',
    'C04': 'Externally visible names are never changed',
    'C05': 'Each option performs only its documented rewrite, only where it is valid',
    'C06': 'Hoisted literals are bound once, before use, to an identical value',
    'C07': 'Constant folding never changes a value, its type, or an error',
    'C08': 'Every compilable module is minified without error into a compilable module',
    'C09': 'Dynamic name access freezes every name in the module',
    'C10': 'Names the user asks to preserve are preserved',
    'C11': 'Output depends only on source, options and interpreter version',
    'C12': 'Minifying never runs code taken from the input',
    'C13': 'The command line tool writes exactly what the API would return',
    'C14': 'The command line tool never emits more bytes than it was given',
    'C15': 'In-place minification touches only Python files and never corrupts one',
    'C16': 'Shebang, source encoding and line endings are handled faithfully',
    'C17': 'Turning a size optimisation on never makes the output longer',
}

# property -> dict(specs, text, note, technique, design_ref)
CHECKS = {
    'C13': dict(
        specs='CliS.tla, CliFlags.tla, Cli.tla, Trace_CliFlags.tla, Trace_Cli.tla',
        text='TLC proves the transcribed argparse wiring equal to the documented flag meaning for all 2^19 flag sets and that each flag moves '
             'only its own option; TLC judges the keyword arguments recorded from the real parse_args()+do_minify() (singles, pairs, annotation '
             'group, random; thorough: all 2^19) and end-to-end runs in five output modes against api(Meaning(F)) with Meaning printed by the '
             'spec; documented rejections must exit non-zero before anything is written.',
        note='Meaning() is transcribed from --help/docs (appendix D). Runs are in-process (main() with argv/stdio patched). API result computed '
             'by calling minify() with the spec-derived keyword arguments.',
        technique='TLA+ (TLC): exhaustive flag-set check + trace validation of recorded CLI runs',
        design_ref='3.7, 5 (C13)'),
    'C14': dict(
        specs='CliS.tla, Cli.tla, Trace_Cli.tla',
        text='Size rule as invariants of the run model (NeverLarger, SizeRule) checked exhaustively; TLC judges real runs of every enumerated '
             'configuration with shrinking/equal/growing/empty targets in all output modes incl. stdin, with and without the override, plus '
             'byte-level sources whose UTF-8 re-encoding grows, each also behind five kinds of #! line, #! lines alone, '
             'and each under every one of the 19 flags on its own (API reference computed from the keyword arguments the tool itself passed).',
        note='Byte lengths measured on the real files/streams; API result from an in-process minify() call; in-process entry point.',
        technique='TLA+ (TLC) model checking of the CLI run model + trace validation of recorded CLI runs',
        design_ref='3.7, 5 (C14)'),
    'C15': dict(
        specs='CliS.tla, Cli.tla, Trace_Cli.tla',
        text='Run model of main() over abstract file trees (reach x class per file, any visiting order, failure at any position) checked '
             'exhaustively for <=3 (quick) / <=4 (thorough) files; every TLC-enumerated 2-file configuration and a seeded sample of 3-file '
             'ones is materialised (nested dirs, symlinked dir, look-alike suffixes) and run through the real entry point with injected '
             'read/write faults; TLC judges post-state, open events, visiting order and the exit status of both ways of starting the tool '
             '(python -m: return value of main() dropped; console script: sys.exit(main())): a run that reports success has no failing target. '
             'Path-argument spellings outside the enumeration are added by hand: --output naming the source itself (directly / through a symlink) and targets the arguments reach '
             'twice (same file named twice, directory + file inside it, directory twice) with a file class whose minification is not idempotent.',
        note='Faults injected through open() (root ignores permission bits); crash between truncate and write is model-only; in-process runs.',
        technique='TLA+ (TLC) model checking with fault enumeration + trace validation of recorded CLI runs',
        design_ref='3.7, 5 (C15)'),
    'C16': dict(
        specs='EncodingS.tla, Encoding.tla, Trace_Encoding.tla',
        text='All 1 728 in-language configurations (text/bytes x BOM x ten coding cookies incl. spellings the tokenizer normalises x LF/CRLF/CR x twelve first-line shapes x preserve) are '
             'enumerated by TLC; the shebang capture model is checked against the expectation exhaustively; every configuration x body program '
             'is run through the real minify() on 3 (quick) / 9 (thorough) interpreters and the real CLI, and TLC judges strict tree identity, '
             'first-line rule, bytes/text agreement and CLI bytes. The result is compared as the UTF-8 bytes the interpreter would read; the non-ASCII #! line uses characters '
             'that distinguish the sibling codecs, and one kind whose bytes in the declared codec are also well-formed UTF-8 for other text.',
        note='Codecs, BOM/cookie detection and newline normalisation are CPython\'s; tree identity is computed by the interpreter under test; '
             'BOM+shebang unconstrained; one known finding (D23: a #! line carrying a coding declaration).',
        technique='TLA+ (TLC) enumeration of the encoding configuration space + trace validation of observed minify()/CLI results',
        design_ref='3.7, 5 (C16)'),
    'C11': dict(
        specs='Api.tla, Trace_Api.tla',
        text='Call histories over caller-owned list objects shared between calls and threads, with calls broken into the steps that read or '
             'extend those lists; TLC checks ArgsUntouched and ResultIsFresh over every plan and interleaving in bounds (1x3, 2x1; thorough 2x2) '
             'and generates (plan, schedule) histories that are replayed in the real code with threads forced through the schedule at stage '
             'boundaries; every result is compared with a fresh process. Plus forward and reverse single-process histories (real modules, the shape bank, and a family with one module per builtin exception and per '
             'Suite.tla statement symbol, 18 syntactic lists of 2 / 4 / 6 equally weighted names, the enumerated programs with a combined global declaration) against one-call processes on 3.12, 3.11 and 2.7, 4 (quick) / 32 (thorough) hash seeds and free-running threads, all judged by TLC.',
        note='Forced interleavings are at seam (stage-boundary) grain; fresh reference = same tree, one call per process; option sets fixed to '
             'rename_globals=True for histories.',
        technique='TLA+ (TLC) model checking of call histories/interleavings + replay of TLC-generated behaviours into the implementation',
        design_ref='3.8, 5 (C11)'),
    'C01': dict(
        specs='Pipeline.tla, PipelineS.tla, Trace_Behave.tla',
        text='Composition/gating of the stages checked by TLC; ObsStable judged by TLC on runs of runnable programs: the source, the tree after every stage of minify() '
             '(outside seams, compiled as an AST without any printer) and the printed result must give the same output, exception type and public namespace. '
             'Programs: the enumerated scope programs (two statement orders), suite cases and hoist placements of the other specifications concretised runnable, '
             'the arithmetic cells of Fold.tla (120 to a module, seeded order), 12 hand-written seed scripts and 122 programs that rebind `object` / a builtin exception (10 rebindings x 6 use sites); scope programs also with adversarial names and with their stores in other '
             'spellings one suite down; options: defaults and seeded subsets of the documented-safe options (seeds: 12 / 200 subsets).',
        note='Observation excludes documented reflective views (renamed names, annotations, line numbers, parameter names of functions). Runs on CPython 3.12; known '
             'findings D18 (PEP 709), D20 (promoted docstring) and D45 (rebound `object` dropped as a base) are matched by shape.',
        technique='TLA+ (TLC) model of the pipeline + trace validation of per-stage behaviour observations of TLC-enumerated programs',
        design_ref='3.9, 5 (C01)'),
    'C02': dict(
        specs='PrinterS.tla, Printer.tla, Trace_Printer.tla, TokensS.tla, TokenBank.tla, Tokens.tla, Trace_Tokens.tla',
        text='S = the grammar\'s levels per expression kind and per expression-valued slot (121 slots x 64 kinds), validated cell by cell against '
             'CPython\'s parser; M = the printer\'s parenthesisation rules transcribed from the code; TLC checks M faithful under S for all 7 156 cells. '
             'Every cell (parenthesised and, where S allows, bare), depth-2 chains (quick: 12 000 sampled; thorough: all ~220 000), literal boundary '
             'values in operator contexts, f-strings with `text=` in front of a replacement field (debug-specifier abbreviation; 2 958 text x value x conversion combinations) and whole modules are round-tripped through the real printer on nine interpreters, strict identity '
             'computed by the interpreter, verdict by TLC; minify() with all transforms off must return a strictly identical tree. '
             'Spacing: TokensS.tla states when two neighbouring tokens join (validated against the tokenizers / parsers of five interpreters for all 10 404 pairs of a '
             'token bank), Tokens.tla checks the TokenPrinter\'s blank rule against it, and Trace_Tokens.tla judges every distinct (previous token, separator, token) '
             'triple the real TokenPrinter emitted while printing the inputs above (outside wrapper).',
        note='Numeric literal text and string quoting are covered by boundary-value observation only (no TLA+ model of float repr). Strict identity '
             'computed by harness/worker.py in the interpreter under test. Token features (first/last character class, prefix-like, ...) are computed by harness/tokentrace.py.',
        technique='TLA+ (TLC) exhaustive check of the parenthesisation table and the token-spacing rule + replay of every enumerated cell/chain into the real printer + trace validation of recorded token adjacencies',
        design_ref='3.4, 5 (C02)'),
    'C12': dict(
        specs='Quote.tla, Trace_Eval.tla, FoldGateS.tla, FoldGate.tla, Trace_FoldGate.tla',
        text='Quote.tla: for every string over 11 character classes up to length 4 (quick) / 5 (thorough) x quote styles x contexts, the text that the '
             'transcribed escaping rules hand to eval() lexes, under an independent literal lexer, as closed literals with no residue (TLC, '
             'exhaustive). Trace_Eval.tla (EvalMonitor): audit-event traces of the real minify() on every enumerated string in nine contexts (with '
             'payloads that would import a canary), on folding attacks, the shape bank and the corpus: each exec must directly follow compilation '
             'of a closed literal expression and be closed bytecode; no import/open/spawn/socket event may mention a canary. FoldGate.tla: which expression trees the '
             'constant folder may evaluate at all (S: closed literal arithmetic; M: the operand gate of visit_BinOp, and the second evaluation - of the printed text of the computed value - per value class; 129 805 shapes over 13 leaf kinds including 1e999 / 2j / 1e999j, TLC exhaustive); every shape '
             '(quick: 20 000) is minified under the monitor and Trace_FoldGate.tla rejects an eval where S allows none. Attack strings: quote run + payload + quote run, lone surrogates, and backslash run + quote + quote-free code + `#`.',
        note='Relies on sys.addaudithook completeness (CPython 3.12 only); loads of the minifier\'s own modules are exempt; attribution by canary names.',
        technique='TLA+ (TLC) exhaustive check of the quoting rules against a literal lexer + trace validation of audit-event traces',
        design_ref='3.5, 5 (C12)'),
    'C03': dict(
        specs='PyScope.tla, Rename.tla, Trace_Rename.tla',
        text='S = the name-resolution rules of Python rules over abstract scope trees (module/function/class/comprehension/lambda x load/store/global/nonlocal/param/'
             'walrus); M = the mapper, binder, resolver, pin rules and name assigner with any processing order and rename/decline choice. TLC '
             'checks that every renamed program keeps the binding partition, home scopes, class fallbacks and compilability (all option combinations; '
             'the two-name model, 22.4 M states, is run by the thorough command when VERIF_DEEP_MODEL=1). Every enumerated program (quick ~15 600 + 4 500 four-deep chains of scopes, thorough ~47 000 + 20 000 chains) is concretised with unique tags, minified by the real '
             'code under three option sets, the spelling of every occurrence is read back (a share also with adversarial names, heavier mention counts, stores spelled as annotated assignment / for / with / tuple / import - also one suite down - and mentions that '
             'bind nothing or are evaluated elsewhere: value-less module-level annotations, del of a declared global, reads in *args / **kwargs annotations; the programs that exist on '
             'Python 2 are also minified under 2.7), TLC re-evaluates the rules of Python on input and output, and '
             'the compiler and a run of both programs are cross-checked.',
        note='Bounds: module + 2 scopes (3 thorough; chains of 3 with one name) and 1-2 names; known finding D18 (PEP 709) judged under both rule sets; helper names of generated programs are preserved; dynamic run on CPython 3.12 only.',
        technique='TLA+ (TLC) model checking of the renamer against the scoping rules of Python + replay of every enumerated program into the real renamer',
        design_ref='3.1, 3.2, 5 (C03)'),
    'C04': dict(
        specs='PyScope.tla, Rename.tla, Trace_Rename.tla, Trace_Interface.tla',
        text='InterfaceKept checked by TLC on the renamer model for all programs and option combinations in bounds; the real renamer is replayed on every '
             'enumerated program under all four (rename_locals, rename_globals) pairs, a share with other store spellings incl. annotated assignments with every annotation removal on and the decorations of C03, plus a replay under Python 2.7 (class attributes, keyword-callable parameters, never-bound names, '
             'module-level names); real modules are projected to interface categories (attribute, keyword, import, class-body, parameter, dunder, unbound, '
             'module-level names) before/after under renaming+hoisting and judged by TLC as (multi)set equalities.',
        note='Documented freedom excluded: first parameter of undecorated/classmethod methods, *args/**kwargs, positional-only. Static projection runs under '
             'CPython 3.11 (symtable without PEP 709 inlining).',
        technique='TLA+ (TLC) model checking of the renamer + trace validation of observed interface projections',
        design_ref='3.2, 5 (C04)'),
    'C09': dict(
        specs='Rename.tla, Pipeline.tla, PipelineS.tla, Trace_Rename.tla, Trace_Taint.tla',
        text='Frozen (renamer model) and the gating of name-introducing stages (pipeline model) checked by TLC; the real code is run on every enumerated '
             'scope program with a module-level trigger, on enumerated programs and four-deep scope chains whose own name is spelled eval / exec / locals / globals / vars (tainted iff '
             'PyScope.tla resolves a read of it to the builtin) with a renamable name in every function (also in other store spellings and with a value-less module-level annotation of the name), and on 7 triggers + 4 look-alikes x 15 syntactic positions x naming-option combinations x preserve lists, star '
             'imports and the 2.7 exec statement (bare, `in` one / two namespaces, tuple spelling): identifier multiset, stage events and naming flags (outside seams), and a run that enumerates namespaces '
             'and looks names up by string, all judged by TLC.',
        note='Look-alikes are unconstrained; identifier multiset covers names, args, def/class names, global/nonlocal, import and except names.',
        technique='TLA+ (TLC) model checking + trace validation of stage events and observed identifier sets',
        design_ref='3.2, 3.9, 5 (C09)'),
    'C10': dict(
        specs='Rename.tla, Trace_Rename.tla, Trace_Preserve.tla',
        text='Preserved checked by TLC on the renamer model under every option combination; the real renamer is replayed on every enumerated program with '
             'the name listed for locals / globals / both; a generated module is minified under 5 __all__ forms x option pairs x local and global name lists x {other transforms at their defaults, all other transforms off} '
             '(locally bound, global, parameter, builtin, absent) given as list or single string, and through awslambda(): occurrence counts of each listed '
             'name, identity of shape with the un-preserved output, and a run of both programs, judged by TLC. The single-string form is also replayed on the other interpreters (2.7 ... 3.13), '
             'once as the native str and once as the text type (unicode on 2.7), judged by the same trace specification.',
        note='Tuples are outside the documented argument type. CLI list spellings are judged in C13.',
        technique='TLA+ (TLC) model checking + trace validation of observed renamings',
        design_ref='3.2, 5 (C10)'),
    'C05': dict(
        specs='SuiteS.tla, Suite.tla, Trace_Suite.tla, Trace_SuiteCorpus.tla',
        text='S = one rewrite step per documented option with its side condition over a 45-symbol statement alphabet in 24 contexts (Allowed = closure, non-empty '
             'rule); M = the nine transformers as written, in pipeline order. TLC checks MOut in Allowed, off-means-untouched, non-emptiness and import order '
             'for all blocks <= 2 (quick) / <= 3 (thorough) x relevant option subsets. Every enumerated case of length 1 and a seeded sample of length 2 (quick ~16 000, thorough ~90 000 of 383 000; "uses __doc__" in five spellings; docstrings of functions and classes and the module-level zq are part of the observation) is concretised, '
             'minified by the real code with exactly those options, the output suite is classified back into the alphabet and TLC checks membership in '
             'Allowed plus equality of runs under optimize 0 and 1. Real modules: an eraser of the documented rewrites (harness/suitecanon.py), tied to S by checking it '
             'against Allowed() on every exported case, is applied to input and output of the pinned corpus under 15 option sets; Trace_SuiteCorpus.tla gives the verdicts.',
        note='AST-level Allowed relation + execution approximates the "bisimilar code" wording; the classifier is statement-local; known findings D20 (promoted docstring) and D27 (removed binding).',
        technique='TLA+ (TLC) model checking of suite rewriting + replay of every enumerated case into the real transformers',
        design_ref='3.3, 5 (C05)'),
    'C06': dict(
        specs='HoistS.tla, Hoist.tla, Trace_Hoist.tla',
        text='S = evaluation-scope and visibility rules for 22 places of a fixed skeleton (class bodies, defaults, decorators, comprehension, lambda, f-string value and '
             'text, match pattern, __slots__, literal statement, docstring position) plus the exclusions the property lists; M = the hoister\'s use collection and '
             'deepest-common-function-namespace placement. TLC checks M |= S for every set of <= 4 (quick) / 5 (thorough) places x 4 literal kinds. Every case '
             '(x 3 option sets; True also spelled as an expression that folding turns into it) is concretised and minified by the real code; TLC judges which places were replaced, the scope / count / position / '
             'value of every alias assignment, docstring and __future__ positions, compilation and a run of both programs. A typed-literal family (two spellings of equal text and '
             'another type, e.g. \'x\' / u\'x\' on 2.7; at module level, in a function, and in documented bodies - docstrings and a future statement in front) is minified and run under 2.7 and 3.x and judged by Trace_Behave.tla.',
        note='Fixed skeleton (one program shape, all placements); alias assignments recognised structurally; known finding D18 (PEP 709) matched by its version '
             'signature (correct on 3.11, NameError on 3.12).',
        technique='TLA+ (TLC) check of hoist placement against scoping rules + replay of every enumerated placement into the real minifier',
        design_ref='3.2, 3.3, 5 (C06)'),
    'C07': dict(
        specs='Fold.tla, Trace_Fold.tla',
        text='Decision structure of the folder (M) against the numeric tower and the property\'s rule (S: result type or exception per operator x '
             'operand-class cell; raising/NaN/not-shorter kept; bool as name constant; negative as unary minus) checked by TLC over 13 x 17 x 17 cells x '
             'environment facts; every cell is instantiated with concrete boundary literals in up to 15 syntactic contexts plus seeded nested '
             'expressions - and, under the default options, in 7 whole-module contexts where the expression occurs three times in defaults / decorators / lambdas / class bodies (folding x hoisting) - and folded by the real code on 3 (quick) / 9 (thorough) interpreters; the interpreter evaluates input and output and TLC '
             'judges identity of type, value, sign bit and exception, the size rule, and that S\'s type table matches the interpreter.',
        note='Values are sampled per class (TLC does no arithmetic); identity is the interpreter\'s verdict; resource-heavy shifts/powers excluded.',
        technique='TLA+ (TLC) check of folding decisions per operator/operand-class cell + replay of every cell into the real folder',
        design_ref='3.6, 5 (C07)'),
    'C17': dict(
        specs='CostS.tla, Cost.tla, Trace_Size.tla',
        text='M = the arithmetic of should_rename (name / builtin / hoisted bindings); S = the true change of printed size including the separator of an inserted '
             'assignment. TLC shows the model exact at module level / one-line bodies and reproduces the indentation under-estimate (D15) and the uncounted blank next to a keyword (D30) for every decision in '
             'bounds. On pinned real modules TLC judges every logged should_rename decision against the cost comparison, and for each of 11 size options and 2 '
             'bases that the output with the option on is no longer than with it off; the same for synthetic modules (a literal repeated 2..20 times; a literal at 3 / 8 '
             'sites of each of 27 syntactic kinds at module level / in a function / in a method), whose size pairs are also taken on the other interpreters that run the minifier (quick: 2.7 and 3.8).',
        note='The property is a corpus observation ("real-world modules" = the pinned corpus); decisions are logged by wrapping should_rename from outside.',
        technique='TLA+ (TLC) check of the cost model + trace validation of logged rename decisions and measured output sizes',
        design_ref='3.2, 5 (C17)'),
    'C08': dict(
        specs='Pipeline.tla, PipelineS.tla, Trace_Pipeline.tla',
        text='TLC exhaustively checks the implementation-shaped pipeline model against the envelope (all 2^14 gating option sets x taint x '
             'parsable); TLC then judges the outcome clause on executions of the real minify() recorded on nine interpreters over a pinned '
             'corpus, grammar test files, a shape bank, corrupted sources, and programs generated from the other specifications\' input spaces (every string of '
             'Quote.tla\'s alphabet in nine literal contexts, expression shapes of FoldGate.tla). Exhaustive in the model, sampled on the code.',
        note='Trusts CPython\'s parse/compile as ground truth; projection code in harness/local.py and worker.py; RecursionError/timeouts on '
             'pathological depth are not judged; 3.3-3.5 not installed.',
        technique='TLA+ model checking (TLC) of the pipeline + TLC trace validation of recorded minify() executions',
        design_ref='3.9, 5 (C08)'),
}

NOT_YET = 'check not built yet (build in progress; see DESIGN.md section 10)'


def build():
    checks = []
    for pid in sorted(CHECKS):
        c = CHECKS[pid]
        checks.append({
            'property_id': pid,
            'quick_cmd': '%s -m harness.checks.%s --tier quick' % (PY, pid),
            'thorough_cmd': '%s -m harness.checks.%s --tier thorough' % (PY, pid),
            'evidence_file': '/verif/evidence/%s.json' % pid,
            'replay_cmd_template': '%s -m harness.replay {path}' % PY,
            'engine': 'tlc',
            'level_claimed': {'category': 'model_checking', 'text': c['text'], 'design_ref': c['design_ref']},
            'level_note': c['note'],
            'technique': c['technique'],
        })
    m = {
        'version': 1,
        'setup_cmd': '%s -m harness.setup' % PY,
        'hooks': {
            'guard': 'PYMINIFY_VERIF',
            'enable': 'runtime wrappers applied from /verif/harness/seams.py when PYMINIFY_VERIF=1; no source changes in /repo',
            'baseline_off_cmd': 'cd /repo && env -u PYMINIFY_VERIF /venv/bin/python -m pytest -ra -q -p no:cacheprovider --timeout=900 '
                                '--continue-on-collection-errors',
            'source_commits': [],
            'add_only': True,
        },
        'engines': [{'name': 'tlc', 'path': '/opt/veriftools/tla/tla2tools.jar',
                     'serves_properties': sorted(CHECKS),
                     'kind_free_text': 'TLC 1.8.0 explicit-state model checker: exhaustive runs of spec/MC_*.cfg, and judge of ndjson '
                                       'observation records through spec/Trace_*.tla'}],
        'checks': checks,
        'notes': 'Specifications under /verif/spec; conformance harness under /verif/harness; known findings in /verif/known_findings.json; '
                 'seeded changes under /verif/seeded. See DESIGN.md.',
        'not_applicable': [{'property_id': pid, 'reason': NOT_YET} for pid in sorted(TITLES) if pid not in CHECKS],
    }
    with open(os.path.join(VERIF, 'MANIFEST.json'), 'w') as f:
        json.dump(m, f, indent=1)
    return m


if __name__ == '__main__':
    m = build()
    print('checks:', [c['property_id'] for c in m['checks']], 'not_applicable:', len(m['not_applicable']))
