"""Generates /verif/MANIFEST.json from the table below (python -m harness.manifest) and validates it."""
import json
import os

from .common import VERIF

PY = '/venv/bin/python -W ignore'

TITLES = {
    'C01': 'Minified module behaves exactly like the original (safe options)',
    'C02': 'Printed source re-parses to exactly the same syntax tree',
    'C03': 'Renaming preserves which binding every name refers to',
    'C04': 'Externally visible names are never changed',
    'C05': 'Each option performs only its documented rewrite, only where it is valid',
    'C06': 'Hoisted literals are bound once, before use, to an identical value',
    'C07': 'Constant folding never changes a value, its type, or an error',
    'C08': 'Every compilable module is minified without error into a compilable module',
    'C09': 'Dynamic name access freezes every name in the module',
    'C10': 'Names the user asks to preserve are preserved',
    'C11': 'Output depends only on source, options and interpreter version',
    'C12': 'Minifying never runs code taken from the input',
    'C13': 'The command line tool writes exactly what the API would return',
    'C14': 'The command line tool never emits more bytes than it was given',
    'C15': 'In-place minification touches only Python files and never corrupts one',
    'C16': 'Shebang, source encoding and line endings are handled faithfully',
    'C17': 'Turning a size optimisation on never makes the output longer',
}

# property -> dict(specs, text, note, technique, design_ref)
CHECKS = {
    'C08': dict(
        specs='Pipeline.tla, PipelineS.tla, Trace_Pipeline.tla',
        text='TLC exhaustively checks the implementation-shaped pipeline model against the envelope (all 2^14 gating option sets x taint x '
             'parsable); TLC then judges the outcome clause on executions of the real minify() recorded on nine interpreters over a pinned '
             'corpus, grammar test files, a shape bank and corrupted sources. Exhaustive in the model, sampled on the code.',
        note='Trusts CPython\'s parse/compile as ground truth; projection code in harness/local.py and worker.py; RecursionError/timeouts on '
             'pathological depth are not judged; 3.3-3.5 not installed.',
        technique='TLA+ model checking (TLC) of the pipeline + TLC trace validation of recorded minify() executions',
        design_ref='3.9, 5 (C08)'),
}

NOT_YET = 'check not built yet (build in progress; see DESIGN.md section 10)'


def build():
    checks = []
    for pid in sorted(CHECKS):
        c = CHECKS[pid]
        checks.append({
            'property_id': pid,
            'quick_cmd': '%s -m harness.checks.%s --tier quick' % (PY, pid),
            'thorough_cmd': '%s -m harness.checks.%s --tier thorough' % (PY, pid),
            'evidence_file': '/verif/evidence/%s.json' % pid,
            'replay_cmd_template': '%s -m harness.replay {path}' % PY,
            'engine': 'tlc',
            'level_claimed': {'category': 'model_checking', 'text': c['text'], 'design_ref': c['design_ref']},
            'level_note': c['note'],
            'technique': c['technique'],
        })
    m = {
        'version': 1,
        'setup_cmd': '%s -m harness.setup' % PY,
        'hooks': {
            'guard': 'PYMINIFY_VERIF',
            'enable': 'runtime wrappers applied from /verif/harness/seams.py when PYMINIFY_VERIF=1; no source changes in /repo',
            'baseline_off_cmd': 'cd /repo && env -u PYMINIFY_VERIF /venv/bin/python -m pytest -ra -q -p no:cacheprovider --timeout=900 '
                                '--continue-on-collection-errors',
            'source_commits': [],
            'add_only': True,
        },
        'engines': [{'name': 'tlc', 'path': '/opt/veriftools/tla/tla2tools.jar',
                     'serves_properties': sorted(CHECKS),
                     'kind_free_text': 'TLC 1.8.0 explicit-state model checker: exhaustive runs of spec/MC_*.cfg, and judge of ndjson '
                                       'observation records through spec/Trace_*.tla'}],
        'checks': checks,
        'notes': 'Specifications under /verif/spec; conformance harness under /verif/harness; known findings in /verif/known_findings.json; '
                 'seeded changes under /verif/seeded. See DESIGN.md.',
        'not_applicable': [{'property_id': pid, 'reason': NOT_YET} for pid in sorted(TITLES) if pid not in CHECKS],
    }
    with open(os.path.join(VERIF, 'MANIFEST.json'), 'w') as f:
        json.dump(m, f, indent=1)
    return m


if __name__ == '__main__':
    m = build()
    print('checks:', [c['property_id'] for c in m['checks']], 'not_applicable:', len(m['not_applicable']))
