"""Shared plumbing for the /verif checks: paths, interpreters, evidence, known findings, verdict reporting.

Every check is `python -m harness.checks.Cxx --tier quick|thorough`.  A check builds a `Report`,
adds model-checking statistics (from TLC), observation counts (records judged by TLC) and
violations; `Report.finish()` matches violations against /verif/known_findings.json, prints the
KNOWN-FINDING / VIOLATION lines, writes the evidence file and returns the exit status
(0 held, 1 violation, 2 machinery failure).
"""
from __future__ import print_function

import argparse
import hashlib
import json
import os
import sys
import time

VERIF = os.path.dirname(os.path.dirname(os.path.abspath(__file__)))
REPO = os.environ.get('VERIF_REPO', '/repo')
REPO_SRC = os.path.join(REPO, 'src')
# VERIF_OUT_DIR / VERIF_EVIDENCE_DIR: scratch and evidence locations of a side run (seeded changes tested on a scratch clone in parallel);
# the registered commands never set them
OUT = os.environ.get('VERIF_OUT_DIR', os.path.join(VERIF, 'out'))
SPEC = os.path.join(VERIF, 'spec')
EVIDENCE = os.environ.get('VERIF_EVIDENCE_DIR', os.path.join(VERIF, 'evidence'))
KNOWN = os.path.join(VERIF, 'known_findings.json')
PYENV = '/root/.pyenv/versions'
GUARD = 'PYMINIFY_VERIF'

ALL_VERSIONS = ['2.7.18', '3.6.15', '3.7.16', '3.8.18', '3.9.18', '3.10.13', '3.11.7', '3.12.1', '3.13.0']

NCPU = max(1, min(16, os.cpu_count() or 1))


def interpreter(version):
    """Path of the pyenv interpreter for a version prefix such as '3.8' (None if not installed)."""
    for v in ALL_VERSIONS:
        if v == version or v.startswith(version + '.'):
            p = os.path.join(PYENV, v, 'bin', 'python')
            if os.path.exists(p):
                return p
    return None


def available_versions(wanted=None):
    out = []
    for v in ALL_VERSIONS:
        short = '.'.join(v.split('.')[:2])
        if wanted is not None and short not in wanted:
            continue
        if interpreter(v):
            out.append(short)
    return out


def ensure_repo_on_path():
    """Import python_minifier from /repo's working tree (never from an installed copy)."""
    if REPO_SRC not in sys.path:
        sys.path.insert(0, REPO_SRC)
    os.environ[GUARD] = '1'
    sys.dont_write_bytecode = True


def outdir(*parts):
    d = os.path.join(OUT, *parts)
    # forked workers may get here together: no check-then-create
    os.makedirs(d, exist_ok=True)
    return d


def sha(s):
    if not isinstance(s, bytes):
        s = s.encode('utf-8', 'surrogatepass')
    return hashlib.sha256(s).hexdigest()


def parse_args(pid):
    ap = argparse.ArgumentParser(prog='harness.checks.' + pid)
    ap.add_argument('--tier', default=os.environ.get('VERIF_TIER', 'quick'), choices=['quick', 'thorough'])
    ap.add_argument('--seed', type=int, default=int(os.environ.get('VERIF_SEED', '0') or 0))
    ap.add_argument('--replay', default=None, help='re-run one replay file and print its verdict')
    ap.add_argument('--selftest', action='store_true', help='corrupt observations and require rejection')
    return ap.parse_args()


def load_known():
    if not os.path.exists(KNOWN):
        return []
    with open(KNOWN) as f:
        return json.load(f).get('findings', [])


class MachineryError(Exception):
    pass


class Report(object):
    def __init__(self, pid, tier, seed, level='model_checking'):
        self.pid = pid
        self.tier = tier
        self.seed = seed
        self.level = level
        self.t0 = time.time()
        self.states = 0
        self.transitions = 0
        self.judged = 0           # observation records judged by TLC against the spec
        self.evaluations = 0      # executions of the real code
        self.nontrivial = set()   # distinct non-trivial cases (hashes)
        self.samples = []
        self.violations = []      # dicts: key, clause, what, replay (dict)
        self.extra = {}
        self.assumptions = []
        self.rule = ''
        self.models = []          # per-TLC-run summaries
        self.exhaustive = None

    # ---- accumulation
    def add_model(self, name, res):
        """res: harness.tlc.TLCResult of an exhaustive model-checking run"""
        self.states += res.distinct
        self.transitions += res.generated
        self.models.append({'spec': name, 'distinct_states': res.distinct, 'states_generated': res.generated,
                            'depth': res.depth, 'wall_s': round(res.wall, 2), 'ok': res.ok,
                            'actions_never_taken': res.uncovered})

    def add_judged(self, n):
        self.judged += n

    def sample(self, s, limit=8):
        if len(self.samples) < limit:
            self.samples.append(s)

    def violation(self, key, clause, what, replay):
        """key: stable identity of the failing shape (matched against known findings);
        clause: name of the spec clause TLC rejected; replay: JSON-able dict to reproduce."""
        self.violations.append({'key': key, 'clause': clause, 'what': what, 'replay': replay})

    # ---- finishing
    def finish(self):
        known = [k for k in load_known() if k.get('property') == self.pid and k.get('status') == 'known']
        rdir = outdir(self.pid, 'replay')
        # the replay files of earlier runs of this check go: what is in the directory afterwards belongs to this run
        for old in os.listdir(rdir):
            if old.endswith('.json'):
                try:
                    os.remove(os.path.join(rdir, old))
                except OSError:
                    pass
        reported_known = {}
        unknown = []
        for v in self.violations:
            hit = None
            for k in known:
                if _matches(k, v):
                    hit = k
                    break
            if hit is not None:
                reported_known.setdefault(hit['id'], [hit, 0])[1] += 1
            else:
                unknown.append(v)
        for kid, (k, n) in sorted(reported_known.items()):
            print('KNOWN-FINDING: property=%s %s [%s; %d matching case(s) in this run]' % (self.pid, k['what'], kid, n))
        seen = set()
        nviol = 0
        for v in unknown:
            ident = sha(json.dumps([v['key'], v['clause']], sort_keys=True))[:16]
            if ident in seen:
                continue
            seen.add(ident)
            nviol += 1
            if nviol > 25:
                continue
            path = os.path.join(rdir, ident + '.json')
            with open(path, 'w') as f:
                json.dump({'property': self.pid, 'clause': v['clause'], 'key': v['key'], 'what': v['what'],
                           'replay': v['replay']}, f, indent=1, sort_keys=True, default=repr)
            print('VIOLATION property=%s replay=%s' % (self.pid, path))
            print('  clause=%s %s' % (v['clause'], v['what']))
        if nviol > 25:
            print('  ... %d further distinct violations not written; all of them by clause:' % (nviol - 25))
            by = {}
            for v in unknown:
                by.setdefault(v['clause'], []).append(str(v['key']))
            for c, ks in sorted(by.items()):
                print('  %5d x %s e.g. %s' % (len(ks), c, '; '.join(sorted(set(ks))[:6])[:400]))
        self._write_evidence(len(unknown), reported_known)
        sys.stdout.flush()
        return 1 if unknown else 0

    def _write_evidence(self, nviol, reported_known):
        cov = {
            'states': int(self.states),
            'transitions': int(self.transitions),
            'traces_validated_against_impl': int(self.judged),
            'samples': self.samples or ['(no sample recorded)'],
            'evaluations': int(max(self.evaluations, 1)),
            'distinct_nontrivial': int(len(self.nontrivial)),
            'rule': self.rule,
            'models': self.models,
            'known_findings_seen': {k: n for k, (_k, n) in reported_known.items()},
        }
        if self.exhaustive is not None:
            cov['exhaustive'] = bool(self.exhaustive)
        cov.update(self.extra)
        ev = {
            'property_id': self.pid,
            'tier': self.tier,
            'seed': int(self.seed),
            'level': self.level,
            'coverage': cov,
            'assumptions': self.assumptions,
            'wall_s': round(time.time() - self.t0, 2),
            'violations': int(nviol),
        }
        if not os.path.isdir(EVIDENCE):
            os.makedirs(EVIDENCE)
        tmp = os.path.join(EVIDENCE, self.pid + '.json.tmp')
        with open(tmp, 'w') as f:
            json.dump(ev, f, indent=1, sort_keys=True, default=repr)
        os.rename(tmp, os.path.join(EVIDENCE, self.pid + '.json'))


def _matches(k, v):
    m = k.get('match', {})
    if 'key' in m and m['key'] != v['key']:
        return False
    if 'key_prefix' in m and not str(v['key']).startswith(m['key_prefix']):
        return False
    if 'clause' in m and m['clause'] != v['clause']:
        return False
    if not m:
        return False
    return True


def main_wrapper(pid, run):
    """run(args, report) -> None.  Maps exceptions to exit 2 (machinery), never to a violation."""
    args = parse_args(pid)
    ensure_repo_on_path()
    rep = Report(pid, args.tier, args.seed)
    try:
        run(args, rep)
        code = rep.finish()
    except MachineryError as e:
        print('MACHINERY-FAILURE property=%s %s' % (pid, e))
        sys.exit(2)
    except Exception:
        import traceback
        traceback.print_exc()
        print('MACHINERY-FAILURE property=%s unexpected exception in the harness' % pid)
        sys.exit(2)
    print('%s tier=%s seed=%d states=%d judged=%d evaluations=%d violations=%d wall=%.1fs' % (
        pid, args.tier, args.seed, rep.states, rep.judged, rep.evaluations, len(rep.violations), time.time() - rep.t0))
    sys.exit(code)
