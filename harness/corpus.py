"""Pinned corpus of real modules.  The manifest (corpus/manifest.json) lists absolute paths inside the
sandbox's interpreters and the repository together with their sha256; a file whose hash no longer
matches is skipped and counted, never judged."""
import hashlib
import json
import os

from .common import VERIF, PYENV, REPO, ALL_VERSIONS

MANIFEST = os.path.join(VERIF, 'corpus', 'manifest.json')

GRAMMAR_TESTS = ['test_grammar.py', 'test_fstring.py', 'test_patma.py', 'test_named_expressions.py', 'test_syntax.py',
                 'test_scope.py', 'test_unpack_ex.py', 'test_type_params.py', 'test_type_aliases.py', 'test_generators.py',
                 'test_coroutines.py', 'test_keywordonlyarg.py', 'test_positional_only_arg.py', 'test_exceptions.py',
                 'test_except_star.py', 'test_dictcomps.py', 'test_setcomps.py', 'test_listcomps.py', 'test_genexps.py',
                 'test_string_literals.py', 'test_unparse.py', 'test_ast.py', 'test_class.py', 'test_decorators.py',
                 'test_lambda.py', 'test_with.py', 'test_augassign.py', 'test_global.py', 'test_dataclasses.py',
                 'test_opcodes.py', 'test_compile.py', 'test_print.py', 'test_extcall.py', 'test_funcattrs.py']


def _sha(path):
    with open(path, 'rb') as f:
        return hashlib.sha256(f.read()).hexdigest()


def build_manifest():
    out = {'stdlib': {}, 'grammar': {}, 'repo': []}
    for v in ALL_VERSIONS:
        short = '.'.join(v.split('.')[:2])
        lib = os.path.join(PYENV, v, 'lib', 'python' + short)
        if not os.path.isdir(lib):
            continue
        cands = []
        for root, dirs, files in os.walk(lib):
            dirs[:] = sorted(d for d in dirs if d not in ('test', 'tests', 'site-packages', 'lib2to3', '__pycache__',
                                                           'idlelib', 'turtledemo', 'ensurepip', 'config', 'pydoc_data')
                             and not d.startswith('config-') and not d.startswith('plat-') and not d.startswith('lib-'))
            for f in sorted(files):
                if f.endswith('.py'):
                    p = os.path.join(root, f)
                    sz = os.path.getsize(p)
                    if 200 <= sz <= 40000:
                        cands.append(p)
        # deterministic spread: order by hash of the relative path
        cands.sort(key=lambda p: hashlib.sha256(os.path.relpath(p, lib).encode()).hexdigest())
        n = 300 if short == '3.12' else 80
        out['stdlib'][short] = [{'path': p, 'sha256': _sha(p)} for p in cands[:n]]
        g = []
        tdir = os.path.join(lib, 'test')
        for name in GRAMMAR_TESTS:
            p = os.path.join(tdir, name)
            if os.path.isfile(p):
                g.append({'path': p, 'sha256': _sha(p)})
            elif os.path.isdir(p[:-3]):
                for f in sorted(os.listdir(p[:-3])):
                    if f.endswith('.py'):
                        q = os.path.join(p[:-3], f)
                        g.append({'path': q, 'sha256': _sha(q)})
        out['grammar'][short] = g
    with open(MANIFEST, 'w') as f:
        json.dump(out, f, indent=0, sort_keys=True)
    return out


_cache = None


def manifest():
    global _cache
    if _cache is None:
        with open(MANIFEST) as f:
            _cache = json.load(f)
    return _cache


def load(entries, limit=None):
    """yield (path, bytes) for entries whose hash still matches; returns list and number skipped"""
    got, skipped = [], 0
    for e in entries[:limit] if limit else entries:
        try:
            with open(e['path'], 'rb') as f:
                b = f.read()
        except OSError:
            skipped += 1
            continue
        if hashlib.sha256(b).hexdigest() != e['sha256']:
            skipped += 1
            continue
        got.append((e['path'], b))
    return got, skipped


def stdlib(version, limit=None):
    return load(manifest()['stdlib'].get(version, []), limit)


def grammar(version, limit=None):
    return load(manifest()['grammar'].get(version, []), limit)


def repo_sources():
    """the repository's own sources (current working tree, not pinned: they are the code under test)"""
    out = []
    base = os.path.join(REPO, 'src', 'python_minifier')
    for root, dirs, files in os.walk(base):
        dirs[:] = sorted(d for d in dirs if d != '__pycache__')
        for f in sorted(files):
            if f.endswith('.py'):
                p = os.path.join(root, f)
                with open(p, 'rb') as fh:
                    out.append((p, fh.read()))
    return out


if __name__ == '__main__':
    m = build_manifest()
    print({k: len(v) for k, v in m['stdlib'].items()}, {k: len(v) for k, v in m['grammar'].items()})
