"""Re-run one replay file written by a check against /repo's working tree and print the verdict again.
usage: python -m harness.replay /verif/out/<id>/replay/<case>.json"""
import base64
import json
import sys

from .common import ensure_repo_on_path


def main():
    path = sys.argv[1]
    with open(path) as f:
        d = json.load(f)
    rp = d['replay']
    print('property=%s clause=%s' % (d['property'], d['clause']))
    print('what: %s' % d['what'])
    kind = rp.get('kind')
    if kind == 'minify':
        from . import pool
        req = {'op': 'minify', 'id': 'replay', 'src_b64': rp['src_b64'], 'as_bytes': bool(rp.get('as_bytes', True)),
               'opts': rp.get('opts', {}), 'strict': bool(rp.get('strict', False))}
        res = pool.run_requests(rp.get('version', '3.12'), [req], procs=1, timeout=300)['replay']
        src = base64.b64decode(rp['src_b64'])
        print('--- source (%d bytes) ---' % len(src))
        print(src[:2000].decode('utf-8', 'replace'))
        print('--- observed on python %s ---' % rp.get('version', '3.12'))
        out = res.pop('out_b64', None)
        print(json.dumps(res, indent=1, sort_keys=True))
        if out:
            print('--- output ---')
            print(base64.b64decode(out)[:2000].decode('utf-8', 'replace'))
    else:
        print(json.dumps(rp, indent=1, sort_keys=True)[:4000])
        mod = rp.get('check')
        if mod:
            ensure_repo_on_path()
            import importlib
            m = importlib.import_module('harness.checks.' + mod)
            if hasattr(m, 'replay'):
                m.replay(rp)


if __name__ == '__main__':
    main()
