"""canon_O for C05 on real modules: erase, on a syntax tree, exactly the rewrites the documentation allows for the options that are on
(docs/source/transforms/*.rst, the same rules as the Steps of SuiteS.tla), wherever their stated condition holds.  The property's
quantifier says: canon_O(minify(P, O)) and canon_O(P) are the same program.  Because every rewrite MAY fire, erasing on both sides and
comparing accepts exactly the outputs that differ from the input by documented rewrites only.

The eraser is a projection written from the documentation, not from the transformers; it is tied to the specification by
`validate_against_spec` (C05): for every case TLC exports from Suite.tla, every block in Allowed(o, ctx, env, blk) must have the canon of
the input block, and blocks that are allowed only under more options must not.

Options use the names of SuiteS.tla: remove_pass, remove_literal_statements, combine_imports, ann_variable, ann_class, ann_argument,
ann_return, remove_object_base, remove_explicit_return_none, remove_builtin_exception_brackets, remove_asserts, remove_debug.
"""
import ast
import builtins
import copy

BUILTIN_EXCEPTIONS = sorted(n for n in dir(builtins) if isinstance(getattr(builtins, n), type) and issubclass(getattr(builtins, n), BaseException))
TRIGGERS = ('eval', 'exec', 'locals', 'globals', 'vars')


class Facts(object):
    """facts about the INPUT module that the documented side conditions refer to"""

    def __init__(self, tree):
        self.uses_doc = False
        self.tainted = False
        self.bound = set()
        mb, _g = own_bindings(tree)
        self.module_bound = set(mb)
        for n in ast.walk(tree):
            if isinstance(n, ast.Global):
                self.module_bound.update(n.names)
        for n in ast.walk(tree):
            if isinstance(n, ast.Name):
                if n.id == '__doc__':
                    self.uses_doc = True
                if isinstance(n.ctx, (ast.Store, ast.Del)):
                    self.bound.add(n.id)
                elif n.id in TRIGGERS:
                    self.tainted = True
            elif isinstance(n, ast.Attribute) and n.attr == '__doc__':
                self.uses_doc = True
            elif isinstance(n, (ast.FunctionDef, ast.AsyncFunctionDef, ast.ClassDef)):
                self.bound.add(n.name)
            elif isinstance(n, ast.arg):
                self.bound.add(n.arg)
            elif isinstance(n, ast.alias):
                if n.name == '*':
                    self.tainted = True
                self.bound.add((n.asname or n.name).split('.')[0])
            elif isinstance(n, ast.ExceptHandler) and n.name:
                self.bound.add(n.name)
            elif isinstance(n, (ast.Global, ast.Nonlocal)):
                self.bound.update(n.names)
            elif isinstance(n, (ast.MatchAs, ast.MatchStar)) and n.name:
                self.bound.add(n.name)
            elif isinstance(n, ast.MatchMapping) and n.rest:
                self.bound.add(n.rest)


def _zero():
    return ast.Expr(value=ast.Constant(value=0))


def _is_literal_stmt(st):
    if not (isinstance(st, ast.Expr) and isinstance(st.value, ast.Constant)):
        return False
    v = st.value.value
    return v is None or isinstance(v, (str, bytes, int, float, complex, bool))


def _debug_test(t):
    if isinstance(t, ast.Name) and t.id == '__debug__':
        return True
    if isinstance(t, ast.Compare) and isinstance(t.left, ast.Name) and t.left.id == '__debug__' and len(t.ops) == 1 and isinstance(t.comparators[0], ast.Constant):
        op, v = t.ops[0], t.comparators[0].value
        return (isinstance(op, ast.Is) and v is True) or (isinstance(op, ast.IsNot) and v is False) or (isinstance(op, ast.Eq) and v is True)
    return False


def _sensitive_class(cls):
    for d in cls.decorator_list:
        f = d.func if isinstance(d, ast.Call) else d
        if (isinstance(f, ast.Name) and f.id == 'dataclass') or (isinstance(f, ast.Attribute) and f.attr == 'dataclass'):
            return True
    for b in cls.bases:
        if (isinstance(b, ast.Name) and b.id in ('NamedTuple', 'TypedDict')) or (isinstance(b, ast.Attribute) and b.attr in ('NamedTuple', 'TypedDict')):
            return True
    return False


def own_bindings(scope):
    """(names bound in this scope itself, names it declares global) - nested function / class / lambda scopes are not entered"""
    bound, glob = set(), set()
    if isinstance(scope, (ast.FunctionDef, ast.AsyncFunctionDef, ast.Lambda)):
        a = scope.args
        for x in a.posonlyargs + a.args + a.kwonlyargs + ([a.vararg] if a.vararg else []) + ([a.kwarg] if a.kwarg else []):
            bound.add(x.arg)
    todo = list(scope.body) if isinstance(scope.body, list) else [scope.body]
    while todo:
        n = todo.pop()
        if isinstance(n, (ast.FunctionDef, ast.AsyncFunctionDef, ast.ClassDef)):
            bound.add(n.name)
            todo += list(n.decorator_list)
            continue
        if isinstance(n, ast.Lambda):
            continue
        if isinstance(n, ast.Name) and isinstance(n.ctx, (ast.Store, ast.Del)):
            bound.add(n.id)
        elif isinstance(n, ast.alias):
            bound.add((n.asname or n.name).split('.')[0])
        elif isinstance(n, ast.ExceptHandler) and n.name:
            bound.add(n.name)
        elif isinstance(n, ast.Global):
            glob.update(n.names)
        elif isinstance(n, (ast.MatchAs, ast.MatchStar)) and n.name:
            bound.add(n.name)
        elif isinstance(n, ast.MatchMapping) and n.rest:
            bound.add(n.rest)
        todo += list(ast.iter_child_nodes(n))
    return bound - glob, glob


class Eraser(object):
    def __init__(self, opts, facts):
        self.o = set(opts)
        self.f = facts
        self.scopes = []        # innermost last: (node, bound, declared global)

    def shadowed(self, name):
        """does this name, read here, mean something other than the builtin?  (Python's resolution: the scope itself, enclosing function scopes,
        then the module; a name the module binds anywhere - or any scope declares global - is the module's)"""
        first = True
        for node, bound, glob in reversed(self.scopes):
            if isinstance(node, ast.Module):
                break
            if name in glob:
                return name in self.f.module_bound
            if isinstance(node, ast.ClassDef) and not first:
                first = False
                continue
            first = False
            if name in bound:
                return True
        return name in self.f.module_bound

    # ---- statements
    def block(self, stmts, owner, field, klass):
        """klass: the class whose body (directly or through if/try/with/for...) this block belongs to, or None"""
        out = []
        first = True
        for st in stmts:
            is_first, first = first, False
            for r in self.stmt(st, owner, klass, is_first and field == 'body'):
                out.append(r)
        if 'combine_imports' in self.o:
            out = self.split_imports(out)
        if 'remove_explicit_return_none' in self.o and isinstance(owner, (ast.FunctionDef, ast.AsyncFunctionDef)) and field == 'body':
            # every bare return at the end of a function body (S removes them one at a time)
            while out and isinstance(out[-1], ast.Return) and out[-1].value is None:
                out.pop()
        if not out and not isinstance(owner, ast.Module):
            out = [_zero()]
        # a `0` that stands alone was (or may have been) put there for a suite that became empty: it reads the same as an emptied suite
        return out

    def split_imports(self, stmts):
        out = []
        for st in stmts:
            if isinstance(st, ast.Import) and len(st.names) > 1:
                out += [ast.Import(names=[a]) for a in st.names]
            elif isinstance(st, ast.ImportFrom) and len(st.names) > 1:
                out += [ast.ImportFrom(module=st.module, names=[a], level=st.level) for a in st.names]
            else:
                out.append(st)
        return out

    def stmt(self, st, owner, klass, docstring_position):
        o = self.o
        if isinstance(st, ast.Pass) and 'remove_pass' in o:
            return []
        if _is_literal_stmt(st) and 'remove_literal_statements' in o:
            kept_doc = isinstance(owner, ast.Module) and docstring_position and isinstance(st.value.value, str) and self.f.uses_doc
            if not kept_doc:
                return []
        if isinstance(st, ast.Assert) and 'remove_asserts' in o:
            return []
        if isinstance(st, ast.If) and 'remove_debug' in o and _debug_test(st.test):
            # what the interpreter runs when __debug__ is False: the else branch
            res = []
            if len(st.orelse) == 1 and _is_literal_stmt(st.orelse[0]) and st.orelse[0].value.value == 0 and type(st.orelse[0].value.value) is int:
                return res      # `else: 0` is an else suite that was emptied (the placeholder): nothing runs
            for s2 in st.orelse:
                res += self.stmt(s2, owner, klass, False)
            return res
        if isinstance(st, ast.Return) and 'remove_explicit_return_none' in o:
            if isinstance(st.value, ast.Constant) and st.value.value is None:
                return [ast.Return(value=None)]
        if isinstance(st, ast.AnnAssign):
            in_class = klass is not None
            on = ('ann_class' in o) if in_class else ('ann_variable' in o)
            if on and not (in_class and _sensitive_class(klass)):
                if st.value is not None:
                    return [ast.Assign(targets=[self.expr(st.target)], value=self.expr(st.value))]
                return [ast.AnnAssign(target=self.expr(st.target), annotation=ast.Constant(value=0), value=None, simple=st.simple)]
        if isinstance(st, ast.Raise) and 'remove_builtin_exception_brackets' in o and not self.f.tainted:
            st = copy.copy(st)
            st.exc = self.unbracket(st.exc)
            st.cause = self.unbracket(st.cause)
        return [self.generic(st, klass)]

    def unbracket(self, e):
        if isinstance(e, ast.Call) and not e.args and not e.keywords and isinstance(e.func, ast.Name) and e.func.id in BUILTIN_EXCEPTIONS \
                and not self.shadowed(e.func.id):
            return e.func
        return e

    # ---- everything else: rebuild, descending into nested blocks
    def generic(self, node, klass):
        if not isinstance(node, ast.AST):
            return node
        new = type(node)()
        inner_klass = klass
        scope = isinstance(node, (ast.FunctionDef, ast.AsyncFunctionDef, ast.Lambda, ast.ClassDef))
        if scope:
            b, g = own_bindings(node)
            self.scopes.append((node, b, g))
        try:
            return self._generic(node, new, klass, inner_klass)
        finally:
            if scope:
                self.scopes.pop()

    def _generic(self, node, new, klass, inner_klass):
        if isinstance(node, ast.ClassDef):
            inner_klass = node
        elif isinstance(node, (ast.FunctionDef, ast.AsyncFunctionDef, ast.Lambda)):
            inner_klass = None
        for field in node._fields:
            if not hasattr(node, field):
                continue
            v = getattr(node, field)
            if isinstance(v, list) and v and all(isinstance(x, ast.stmt) for x in v):
                setattr(new, field, self.block(v, node, field, inner_klass))
            elif isinstance(v, list):
                setattr(new, field, [self.generic(x, inner_klass) for x in v])
            else:
                setattr(new, field, self.generic(v, inner_klass))
        if isinstance(node, ast.ClassDef) and 'remove_object_base' in self.o:
            new.bases = [b for b in new.bases if not (isinstance(b, ast.Name) and b.id == 'object')]
        if isinstance(node, (ast.FunctionDef, ast.AsyncFunctionDef)) and 'ann_return' in self.o:
            new.returns = None
        if isinstance(node, ast.arg) and 'ann_argument' in self.o:
            new.annotation = None
        if isinstance(node, ast.Constant):
            new.kind = None          # the u prefix of a literal is not part of the program
        return new

    def expr(self, e):
        return self.generic(e, None)

    def module(self, tree):
        self.scopes = [(tree, set(), set())]
        new = ast.Module(body=self.block(tree.body, tree, 'body', None), type_ignores=[])
        return new


def canon(tree, opts, facts):
    return ast.dump(Eraser(opts, facts).module(tree))


def first_difference(a, b, width=90):
    n = 0
    while n < min(len(a), len(b)) and a[n] == b[n]:
        n += 1
    return a[max(0, n - 40):n + width], b[max(0, n - 40):n + width]


KW_OF = {'remove_pass': 'remove_pass', 'remove_literal_statements': 'remove_literal_statements', 'combine_imports': 'combine_imports',
         'remove_object_base': 'remove_object_base', 'remove_explicit_return_none': 'remove_explicit_return_none',
         'remove_builtin_exception_brackets': 'remove_builtin_exception_brackets', 'remove_asserts': 'remove_asserts', 'remove_debug': 'remove_debug'}


def minify_kwargs(opts):
    from python_minifier.transforms.remove_annotations_options import RemoveAnnotationsOptions
    kw = dict(hoist_literals=False, rename_locals=False, rename_globals=False, convert_posargs_to_args=False, constant_folding=False, preserve_shebang=False)
    for o, k in KW_OF.items():
        kw[k] = o in opts
    kw['remove_annotations'] = RemoveAnnotationsOptions(remove_variable_annotations='ann_variable' in opts, remove_return_annotations='ann_return' in opts,
                                                       remove_argument_annotations='ann_argument' in opts, remove_class_attribute_annotations='ann_class' in opts)
    return kw


def observe_module(job):
    """job: {id, src (bytes or str), optsets: {name: [options]}} -> one record per option set: is canon_O(out) == canon_O(in)?"""
    from .common import ensure_repo_on_path
    ensure_repo_on_path()
    import python_minifier
    import sys
    if hasattr(sys, 'set_int_max_str_digits'):
        sys.set_int_max_str_digits(0)
    src = job['src']
    out = []
    try:
        tin = ast.parse(src)
    except Exception:
        return out
    facts = Facts(tin)
    for name, opts in sorted(job['optsets'].items()):
        rec = {'id': '%s|%s' % (job['id'], name), 'opts': sorted(opts), 'outcome': 'return', 'equal': True, 'changed': False, 'diff_in': '', 'diff_out': ''}
        try:
            res = python_minifier.minify(src, **minify_kwargs(opts))
            tout = ast.parse(res)
        except RecursionError:
            continue
        except BaseException as e:   # noqa
            rec['outcome'] = 'raise:' + type(e).__name__
            out.append(rec)
            continue
        try:
            a, b = canon(tin, opts, facts), canon(tout, opts, facts)
        except RecursionError:
            continue
        rec['changed'] = ast.dump(tin) != ast.dump(tout)
        if a != b:
            rec['equal'] = False
            rec['diff_in'], rec['diff_out'] = first_difference(a, b)
        out.append(rec)
    return out


# ---------------------------------------------------------------------------------------------------------------------------------
# tie to SuiteS.tla: symbols that occur only in outputs, and the comparison of the eraser with Allowed()
OUT_STMT = {
    ('zero',): '0', ('assign',): 'av = emit("annval")', ('annzero',): 'an: 0', ('annzero_zq',): 'zq: 0', ('raise0_nb',): 'raise ValueError',
    ('raisefrom_nb_exc',): 'raise ValueError from KeyError()', ('raisefrom_nb_cause',): 'raise ValueError() from KeyError',
    ('raisefrom_nb_both',): 'raise ValueError from KeyError', ('classnoobj',): 'class Inner: emit("inner")', ('nodbg',): 'emit("nodbg")',
    ('elif_if',): 'if emit("elif"): emit("elifbody")', ('dbg_else0',): 'if __debug__: emit("dbg")\nelse: 0',
}
_MOD = {'a': 'os', 'b': 'sys'}
_FROM = {'x': 'path', 'y': 'sep', 'z': 'argv'}


def stmt_text(sym):
    from . import suitegen
    sym = tuple(sym)
    if sym in suitegen.STMT:
        return suitegen.STMT[sym]
    if sym in OUT_STMT:
        return OUT_STMT[sym]
    if sym[0] == 'imp':
        return 'import ' + ', '.join(_MOD[x] for x in sym[1:])
    if sym[0] == 'from':
        return 'from %s import %s' % (sym[1], ', '.join(_FROM[x] for x in sym[2:]))
    raise KeyError(sym)


def program_of(ctx, env, blk):
    """the suitegen program for a block that may contain output-only symbols; an empty module-level block is an empty body"""
    from . import suitegen
    body = '\n'.join(stmt_text(st) for st in blk)
    wrapped, _path = suitegen.wrap(ctx, body) if (body or ctx not in ('module', 'module_top')) else ('', None)
    pre = 'class UserExc(Exception): pass\nxflag = True\nzq = "global-zq"\n'
    if env.get('shadow'):
        pre += 'def ValueError():\n    return KeyError("made")\n'
    post = 'emit(("gzq", zq))\n'
    if env.get('usesDoc'):
        post += 'emit(("doc", __doc__))\n'
    if env.get('tainted'):
        post += 'emit(("ev", eval("1")))\n'
    if ctx == 'module_top':
        return wrapped + '\n' + pre + post
    return pre + wrapped + '\n' + post


def validate_case(case):
    """case: one EmitAllowed record of Suite.tla.  Returns a list of disagreements between the eraser and S (empty = agree)."""
    ctx, env, blk, opts = case['ctx'], case['env'], case['blk'], case['opts']
    try:
        tin = ast.parse(program_of(ctx, env, blk))
    except SyntaxError:
        return []
    facts = Facts(tin)
    facts.tainted = bool(env.get('tainted'))      # the case says whether the module is tainted (the class wrapper of suitegen itself calls vars())
    want = canon(tin, opts, facts)
    bad = []
    for b in case['allowed']:
        try:
            got = canon(ast.parse(program_of(ctx, env, b)), opts, facts)
        except SyntaxError:
            continue
        if got != want:
            bad.append({'kind': 'eraser-rejects-what-S-allows', 'ctx': ctx, 'env': env, 'blk': blk, 'opts': opts, 'b': b})
    binders = any(tuple(st) in (('dbg_bind',), ('assert_bind',), ('dbg_global',)) for st in blk)
    if not binders:
        for b in case['wider']:
            try:
                got = canon(ast.parse(program_of(ctx, env, b)), opts, facts)
            except SyntaxError:
                continue
            if got == want:
                bad.append({'kind': 'eraser-accepts-what-S-forbids', 'ctx': ctx, 'env': env, 'blk': blk, 'opts': opts, 'b': b})
    return bad
