"""Outside instrumentation of python_minifier (no source changes in /repo).

`minify()` looks its stages up as module globals of python_minifier/__init__.py at call time and
threads one ast.Module through them, so wrapping those globals yields the executed stage sequence
with the arguments that carry gating decisions.  Only active while PYMINIFY_VERIF=1 and a
`Recorder` is installed; a stage name that no longer exists is skipped (recorded in `missing`),
never an error.
"""
import os
import threading

from .common import GUARD

FUNC_STAGES = ['add_parent', 'add_namespace', 'bind_names', 'resolve_names', 'remove_no_arg_exception_call',
               'allow_rename_locals', 'allow_rename_globals', 'rename_literals', 'rename', 'remove_posargs', 'unparse']
CLASS_STAGES = ['RemoveLiteralStatements', 'CombineImports', 'RemoveAnnotations', 'RemovePass', 'RemoveObject',
                'RemoveAsserts', 'RemoveDebug', 'RemoveExplicitReturnNone', 'FoldConstants']


class Recorder(object):
    """Collects stage events per thread.  hook(stage, phase, module) may be given to observe trees
    (phase 'before'/'after') or to force schedules."""

    def __init__(self, hook=None):
        self.local = threading.local()
        self.hook = hook
        self.missing = []

    def begin(self):
        self.local.events = []
        self.local.module = None

    def events(self):
        return getattr(self.local, 'events', [])

    def module(self):
        return getattr(self.local, 'module', None)

    def emit(self, stage, args, module):
        ev = {'stage': stage}
        ev.update(args)
        if not hasattr(self.local, 'events'):
            self.local.events = []
        self.local.events.append(ev)
        if module is not None and module.__class__.__name__ == 'Module':
            self.local.module = module


_installed = None


def install(recorder):
    """Wrap the stage globals.  Returns a function that restores them."""
    global _installed
    if os.environ.get(GUARD) != '1':
        raise RuntimeError('seams are only available with %s=1' % GUARD)
    import python_minifier as pm
    saved = {}

    def wrap_func(name, f):
        def w(*a, **k):
            args = {}
            if name == 'allow_rename_locals':
                args['flag'] = bool(a[1]) if len(a) > 1 else bool(k.get('rename_locals'))
                pl = a[2] if len(a) > 2 else k.get('preserve_locals')
                args['preserve'] = sorted(set(pl or []))
            elif name == 'allow_rename_globals':
                args['flag'] = bool(a[1]) if len(a) > 1 else bool(k.get('rename_globals'))
                pg = a[2] if len(a) > 2 else k.get('preserve_globals')
                args['preserve'] = sorted(set(pg or []))
            elif name == 'rename':
                args['flag'] = bool(k.get('prefix_globals', a[1] if len(a) > 1 else False))
            mod = a[0] if a else None
            if recorder.hook:
                recorder.hook(name, 'before', mod)
            try:
                return f(*a, **k)
            finally:
                recorder.emit(name, args, mod)
                if recorder.hook:
                    recorder.hook(name, 'after', mod)
        w.__wrapped__ = f
        return w

    def wrap_class(name, cls):
        def factory(*ca, **ck):
            inst = cls(*ca, **ck)

            def call(module):
                if recorder.hook:
                    recorder.hook(name, 'before', module)
                try:
                    return inst(module)
                finally:
                    recorder.emit(name, {}, module)
                    if recorder.hook:
                        recorder.hook(name, 'after', module)
            return call
        factory.__wrapped__ = cls
        return factory

    for n in FUNC_STAGES:
        f = pm.__dict__.get(n)
        if f is None or not callable(f):
            recorder.missing.append(n)
            continue
        saved[n] = f
        pm.__dict__[n] = wrap_func(n, f)
    for n in CLASS_STAGES:
        c = pm.__dict__.get(n)
        if c is None:
            recorder.missing.append(n)
            continue
        saved[n] = c
        pm.__dict__[n] = wrap_class(n, c)
    _installed = recorder

    def restore():
        global _installed
        for n, v in saved.items():
            pm.__dict__[n] = v
        _installed = None
    return restore
