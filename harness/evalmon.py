"""EvalMonitor: record the audit events of one minify() call and project them to Trace_Eval.tla's vocabulary."""
import dis
import io
import sys
import token
import tokenize

from .common import ensure_repo_on_path

ensure_repo_on_path()

CANARIES = ('zq_canary',)
BAD_OPS = {'LOAD_NAME', 'LOAD_GLOBAL', 'LOAD_ATTR', 'LOAD_METHOD', 'CALL', 'CALL_FUNCTION', 'CALL_FUNCTION_EX', 'CALL_KW', 'PRECALL',
           'IMPORT_NAME', 'IMPORT_FROM', 'LOAD_FAST', 'LOAD_DEREF', 'MAKE_FUNCTION', 'STORE_NAME', 'STORE_GLOBAL', 'STORE_ATTR',
           'LOAD_BUILD_CLASS', 'LOAD_CLOSURE', 'BINARY_SUBSCR', 'BUILD_TUPLE', 'BUILD_LIST', 'FORMAT_VALUE', 'LOAD_SUPER_ATTR'}
ARITH = {'+', '-', '*', '**', '/', '//', '%', '@', '<<', '>>', '&', '|', '^', '~'}
LAYOUT = {token.NEWLINE, token.NL, token.ENDMARKER, token.INDENT, token.DEDENT, token.COMMENT}

_state = {'on': False, 'events': []}


def classify_text(src):
    if isinstance(src, bytes):
        try:
            src = src.decode('utf-8')
        except UnicodeDecodeError:
            return ['ERROR']
    if not isinstance(src, str):
        return ['AST']           # an ast object handed to compile(): not text
    out = []
    try:
        for tok in tokenize.generate_tokens(io.StringIO(src).readline):
            if tok.type in LAYOUT:
                out.append('LAYOUT')
            elif tok.type == token.NUMBER:
                out.append('NUMBER')
            elif tok.type == token.STRING:
                p = tok.string[:3].lower()
                out.append('FSTRING' if ('f' in p.split("'")[0].split('"')[0]) else 'STRING')
            elif tok.type == token.NAME:
                out.append('NAMECONST' if tok.string in ('True', 'False', 'None') else 'NAME')
            elif tok.type == token.OP:
                if tok.string in ARITH:
                    out.append('OP_ARITH')
                elif tok.string == '(':
                    out.append('LPAR')
                elif tok.string == ')':
                    out.append('RPAR')
                else:
                    out.append('OP_OTHER')
            else:
                out.append(token.tok_name.get(tok.type, 'OTHER'))
            if len(out) > 400:
                out.append('TRUNCATED')
                break
    except (tokenize.TokenError, SyntaxError, IndentationError, ValueError):
        out.append('ERROR')
    return out


def closed_code(code):
    if code.co_names:
        return False
    if any(hasattr(k, 'co_code') for k in code.co_consts):
        return False
    for ins in dis.get_instructions(code):
        if ins.opname in BAD_OPS:
            return False
    return True


def _is_module_file(fn):
    import os
    return isinstance(fn, str) and fn.startswith('/') and fn.endswith('.py') and os.path.isfile(fn)


def _hook(event, args):
    if not _state['on']:
        return
    _state['on'] = False
    try:
        evs = _state['events']
        if event == 'compile':
            src = args[0]
            fn = args[1] if len(args) > 1 else ''
            if _is_module_file(fn):
                # the interpreter importing one of its own / the minifier's modules from disk: not evaluation of input text
                evs.append({'ev': 'modload', 'toks': [], 'file': str(fn)[:60], 'closed': False, 'canary': any(c in str(fn) for c in CANARIES)})
                return
            # whole-module parses of the input / output by ast.parse are not evaluation: record them as layout-free 'parse'
            evs.append({'ev': 'compile', 'toks': classify_text(src), 'file': str(fn)[:40], 'closed': False, 'canary': False})
        elif event == 'exec' and _is_module_file(getattr(args[0], 'co_filename', '')):
            fn = args[0].co_filename
            evs.append({'ev': 'modload', 'toks': [], 'file': str(fn)[:60], 'closed': False, 'canary': any(c in str(fn) for c in CANARIES)})
        elif event == 'exec':
            evs.append({'ev': 'exec', 'toks': [], 'file': str(getattr(args[0], 'co_filename', ''))[:40], 'closed': bool(closed_code(args[0])), 'canary': False})
        elif event == 'import':
            evs.append({'ev': 'import', 'toks': [], 'file': str(args[0])[:60], 'closed': False, 'canary': any(c in str(args[0]) for c in CANARIES)})
        elif event == 'open':
            evs.append({'ev': 'open', 'toks': [], 'file': str(args[0])[:60], 'closed': False, 'canary': any(c in str(args[0]) for c in CANARIES)})
        elif event in ('os.system', 'subprocess.Popen', 'os.exec', 'os.posix_spawn', 'os.spawn', 'os.fork'):
            evs.append({'ev': 'spawn', 'toks': [], 'file': str(args[0] if args else '')[:60], 'closed': False, 'canary': True})
        elif event in ('socket.connect', 'socket.bind', 'socket.getaddrinfo', 'socket.__new__'):
            evs.append({'ev': 'socket', 'toks': [], 'file': '', 'closed': False, 'canary': True})
    finally:
        _state['on'] = True


_installed = False


def monitored_minify(job):
    """job: {id, src (str), opts}.  Returns the Trace_Eval record + outcome."""
    global _installed
    import python_minifier
    from .local import kwargs_of
    if not _installed:
        import python_minifier.f_string  # noqa: F401  (lazy imports of the minifier happen before monitoring starts)
        import python_minifier.ministring  # noqa: F401
        import copy  # noqa: F401
        sys.addaudithook(_hook)
        _installed = True
    _state['events'] = []
    _state['on'] = True
    try:
        try:
            out = python_minifier.minify(job['src'], **kwargs_of(job.get('opts', {})))
            outcome = 'return'
        except BaseException as e:  # noqa
            out = None
            outcome = 'raise:' + type(e).__name__
    finally:
        _state['on'] = False
    evs = _state['events']
    # drop whole-module parses: a compile event that is not followed by an exec before the next compile is parsing, not evaluation;
    # keep them anyway (the monitor's state machine handles them), but cap their token lists
    for e in evs:
        if e['ev'] == 'compile' and len(e['toks']) > 60:
            e['toks'] = e['toks'][:60]
    return {'id': job['id'], 'events': evs[:3000], 'outcome': outcome, 'n_exec': sum(1 for e in evs if e['ev'] == 'exec')}
