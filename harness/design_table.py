"""Prints the per-property table of DESIGN.md section 0.2 from the evidence files (python -m harness.design_table)."""
import json
import os

from .common import EVIDENCE
from .manifest import CHECKS


def main():
    print('| id | specification modules | in-model run (quick tier) | replay / trace validation (quick tier) |')
    print('|----|-----------------------|---------------------------|-----------------------------------------|')
    for pid in sorted(CHECKS):
        e = json.load(open(os.path.join(EVIDENCE, pid + '.json')))
        c = e.get('coverage', {})
        models = ', '.join('%s: %s states' % (m['spec'].split('/')[0], format(m['distinct_states'], ',').replace(',', ' ')) for m in c.get('models', []))
        judged = c.get('traces_validated_against_impl', c.get('judged'))
        print('| %s | %s | %s | %s evaluations of the real code, %s records judged by TLC, %s distinct non-trivial inputs |' % (
            pid, CHECKS[pid]['specs'].replace('.tla', ''), models, format(c.get('evaluations', 0), ',').replace(',', ' '),
            format(judged, ',').replace(',', ' ') if isinstance(judged, int) else '?', format(c.get('distinct_nontrivial', 0), ',').replace(',', ' ')))


if __name__ == '__main__':
    main()
