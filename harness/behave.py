"""C01: observe what a program does (output, terminating exception type, public namespace), for the source text, for the tree every
stage of minify() leaves behind (through the outside seams; compiled as an AST, no printer involved) and for the printed result."""
from __future__ import print_function

import ast
import io
import sys

from .common import ensure_repo_on_path

ensure_repo_on_path()

SAFE = ['combine_imports', 'remove_pass', 'hoist_literals', 'rename_locals', 'remove_object_base', 'convert_posargs_to_args', 'preserve_shebang',
        'remove_explicit_return_none', 'remove_builtin_exception_brackets', 'constant_folding']
SAFE_ANN = ['remove_variable_annotations', 'remove_return_annotations', 'remove_argument_annotations']


def safe_subset(rng):
    """a subset of the options documented as safe (everything else off)"""
    o = {k: rng.random() < 0.6 for k in SAFE}
    o.update(remove_literal_statements=False, rename_globals=False, remove_asserts=False, remove_debug=False)
    ann = {k: rng.random() < 0.6 for k in SAFE_ANN}
    ann['remove_class_attribute_annotations'] = False
    o['remove_annotations'] = ann
    return o


def clean_copy(node):
    """field-wise copy of a tree without the annotations (parent, namespace, bindings) the minifier hangs on it"""
    if isinstance(node, ast.AST):
        new = type(node)()
        for f in node._fields:
            if hasattr(node, f):
                setattr(new, f, clean_copy(getattr(node, f)))
        return new
    if isinstance(node, list):
        return [clean_copy(x) for x in node]
    return node


def describe(v, depth=0):
    import inspect
    if isinstance(v, (int, float, complex, str, bytes, bool, type(None))):
        return '%s:%r' % (type(v).__name__, v)
    if isinstance(v, (list, tuple, set, frozenset)) and depth < 2:
        items = [describe(x, depth + 1) for x in v]
        if isinstance(v, (set, frozenset)):
            items.sort()
        return '%s[%s]' % (type(v).__name__, ','.join(items))
    if isinstance(v, dict) and depth < 2:
        return 'dict{%s}' % ','.join(sorted('%s=%s' % (describe(k, 2), describe(x, depth + 1)) for k, x in v.items()))
    if inspect.isclass(v):
        return 'class(%s)' % ','.join(sorted(n for n in vars(v) if not n.startswith('__')))
    if inspect.isfunction(v):
        # how a function is *called* is exercised by the programs themselves; parameter names are a reflective view
        # (positional-only markers may be dropped, self / cls / *args may be renamed), so only the arity is observed
        try:
            return 'function/%d' % len(inspect.signature(v).parameters)
        except (TypeError, ValueError):
            return 'function'
    return type(v).__name__


def observe_code(code):
    log = []
    buf = io.StringIO()
    ns = {'emit': lambda *a: (log.append(repr(a[0] if len(a) == 1 else a)), True)[1], '__name__': 'behaveprog'}
    ns['emit'].k = 0
    import contextlib
    import types

    @contextlib.contextmanager
    def ctx(v):
        yield v
    ns['emit'].ctx = ctx
    # the scope programs spell some stores `import xx`: stand-in modules for the names they use
    fake = [n for n in ('xx', 'yy', 'A', 'B') if n not in sys.modules]
    for n in fake:
        sys.modules[n] = types.ModuleType(n)
    old = sys.stdout
    sys.stdout = buf
    try:
        try:
            exec(code, ns)
            exc = ''
        except SystemExit as e:
            exc = 'SystemExit:%r' % (e.code,)
        except BaseException as e:  # noqa
            exc = type(e).__name__
    finally:
        sys.stdout = old
        for n in fake:
            sys.modules.pop(n, None)
    pub = []
    for k in sorted(ns):
        if k.startswith('_') or k == 'emit':
            continue
        try:
            pub.append('%s=%s' % (k, describe(ns[k])))
        except Exception:  # noqa
            pub.append('%s=?' % k)
    return 'OUT:' + buf.getvalue()[:6000] + '|LOG:' + '|'.join(log)[:6000] + '|EXC:' + exc + '|NS:' + ';'.join(pub)[:4000]


def observe_source(src):
    try:
        code = compile(src, 'behaveprog', 'exec', dont_inherit=True)
    except (SyntaxError, ValueError) as e:
        return 'COMPILE-ERROR:' + type(e).__name__
    return observe_code(code)


_rec = None


def observe(job):
    """job: {id, src (str), opts, stages (bool)}  ->  Trace_Behave record"""
    global _rec
    import python_minifier
    from . import seams
    from .local import kwargs_of
    src = job['src']
    rec = {'id': job['id'], 'outcome': 'return', 'obs0': observe_source(src), 'stages': [], 'obs_final': ''}
    snaps = []

    def hook(stage, phase, module):
        if phase == 'after' and job.get('stages') and isinstance(module, ast.Module) and stage not in ('unparse', 'add_parent', 'add_namespace', 'bind_names', 'resolve_names',
                                                                                                          'allow_rename_locals', 'allow_rename_globals'):
            try:
                t = clean_copy(module)
                ast.fix_missing_locations(t)
                snaps.append((stage, compile(t, 'behaveprog', 'exec', dont_inherit=True)))
            except Exception as e:  # noqa
                snaps.append((stage, 'SNAPSHOT-ERROR:' + type(e).__name__ + ':' + str(e)[:60]))
    if _rec is None:
        _rec = seams.Recorder()
        seams.install(_rec)
    _rec.hook = hook
    _rec.begin()
    try:
        out = python_minifier.minify(src, **kwargs_of(job['opts']))
    except BaseException as e:  # noqa
        rec['outcome'] = 'raise:' + type(e).__name__
        _rec.hook = None
        return rec
    _rec.hook = None
    for stage, code in snaps:
        rec['stages'].append({'stage': stage, 'obs': code if isinstance(code, str) else observe_code(code)})
    rec['obs_final'] = observe_source(out)
    rec['_out'] = out
    return rec
