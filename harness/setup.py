"""setup_cmd: offline sanity checks - tools present, every specification parses (SANY), corpus manifest readable."""
import glob
import os
import shutil
import subprocess
import sys

from .common import SPEC, VERIF, available_versions, outdir
from . import tlc


def main():
    ok = True
    if shutil.which('java') is None or not os.path.exists(tlc.JAR):
        print('setup: java / tla2tools.jar missing')
        ok = False
    outdir()
    for d in ('evidence',):
        p = os.path.join(VERIF, d)
        if not os.path.isdir(p):
            os.makedirs(p)
    mods = sorted(os.path.basename(p)[:-4] for p in glob.glob(os.path.join(SPEC, '*.tla')))
    bad = []
    for m in mods:
        good, out = tlc.sany(m)
        if not good:
            bad.append(m)
            print(out[-800:])
    print('setup: %d specification modules parsed, %d failed; interpreters: %s' % (len(mods), len(bad), ','.join(available_versions())))
    if bad:
        ok = False
    sys.exit(0 if ok else 1)


if __name__ == '__main__':
    main()
