"""Projection of a module's externally visible names (C04) from source text, per category."""
import ast
import builtins
import symtable


def _class_body_names(body, out):
    for st in body:
        if isinstance(st, (ast.FunctionDef, ast.AsyncFunctionDef, ast.ClassDef)):
            out.append(st.name)
        elif isinstance(st, ast.Assign):
            for t in st.targets:
                for n in ast.walk(t):
                    if isinstance(n, ast.Name):
                        out.append(n.id)
        elif isinstance(st, (ast.AnnAssign, ast.AugAssign)):
            if isinstance(st.target, ast.Name):
                out.append(st.target.id)
        elif isinstance(st, (ast.Import, ast.ImportFrom)):
            for a in st.names:
                out.append((a.asname or a.name).split('.')[0])
        elif isinstance(st, (ast.If, ast.For, ast.While, ast.With, ast.Try)):
            for f in ('body', 'orelse', 'finalbody'):
                _class_body_names(getattr(st, f, []) or [], out)
            for h in getattr(st, 'handlers', []) or []:
                _class_body_names(h.body, out)


def _targets(node, out):
    for n in ast.walk(node):
        if isinstance(n, ast.Name) and isinstance(n.ctx, (ast.Store, ast.Del)):
            out.add(n.id)


def module_bound(tree):
    """names bound in the module namespace, from the syntax alone (assignment / import / def / class / for / with / except / match
    targets at module level, walrus targets of module-level comprehensions, and names a function declares global and binds)"""
    out = set()

    def stmts(body, scope_globals):
        for st in body:
            visit(st, scope_globals)

    def bind(name, scope_globals):
        if scope_globals is None or name in scope_globals:
            out.add(name)

    def expr_walrus(node, scope_globals):
        # walrus targets bind in the nearest non-comprehension scope; lambdas are scopes of their own
        stack = [node]
        while stack:
            n = stack.pop()
            if isinstance(n, ast.Lambda):
                continue
            if isinstance(n, ast.NamedExpr) and isinstance(n.target, ast.Name):
                bind(n.target.id, scope_globals)
            stack.extend(ast.iter_child_nodes(n))

    def visit(st, g):
        if isinstance(st, (ast.FunctionDef, ast.AsyncFunctionDef)):
            bind(st.name, g)
            for d in st.decorator_list + st.args.defaults + [x for x in st.args.kw_defaults if x is not None]:
                expr_walrus(d, g)
            decl = set()
            for n in ast.walk(st):
                if isinstance(n, ast.Global):
                    decl.update(n.names)
            inner(st.body, decl)
            return
        if isinstance(st, ast.ClassDef):
            bind(st.name, g)
            for d in st.decorator_list + st.bases + [k.value for k in st.keywords]:
                expr_walrus(d, g)
            decl = set()
            for n in st.body:
                if isinstance(n, ast.Global):
                    decl.update(n.names)
            inner(st.body, decl)
            return
        names = set()
        if isinstance(st, (ast.Import, ast.ImportFrom)):
            for a in st.names:
                if a.name != '*':
                    names.add((a.asname or a.name).split('.')[0])
        elif isinstance(st, (ast.Assign, ast.AugAssign, ast.AnnAssign, ast.Delete, ast.For, ast.AsyncFor)):
            for t in (st.targets if isinstance(st, (ast.Assign, ast.Delete)) else [st.target]):
                if not (isinstance(st, ast.AnnAssign) and st.value is None and False):
                    tmp = set()
                    for n in ast.walk(t):
                        if isinstance(n, ast.Name) and isinstance(n.ctx, (ast.Store, ast.Del)):
                            tmp.add(n.id)
                    names |= tmp
        elif isinstance(st, (ast.With, ast.AsyncWith)):
            for it in st.items:
                if it.optional_vars is not None:
                    _targets(it.optional_vars, names)
        elif isinstance(st, ast.Try) or st.__class__.__name__ == 'TryStar':
            for h in st.handlers:
                if h.name:
                    names.add(h.name)
        elif st.__class__.__name__ == 'Match':
            for c in st.cases:
                for n in ast.walk(c.pattern):
                    nm = getattr(n, 'name', None) if n.__class__.__name__ in ('MatchAs', 'MatchStar') else (getattr(n, 'rest', None) if n.__class__.__name__ == 'MatchMapping' else None)
                    if nm:
                        names.add(nm)
        elif st.__class__.__name__ == 'TypeAlias':
            names.add(st.name.id)
        for nm in names:
            bind(nm, g)
        # expressions of this statement (walrus), then nested statement lists
        for f, v in ast.iter_fields(st):
            if isinstance(v, ast.expr):
                expr_walrus(v, g)
            elif isinstance(v, list):
                for x in v:
                    if isinstance(x, ast.stmt):
                        visit(x, g)
                    elif isinstance(x, ast.expr):
                        expr_walrus(x, g)
                    elif isinstance(x, ast.ExceptHandler):
                        if x.type is not None:
                            expr_walrus(x.type, g)
                        stmts(x.body, g)
                    elif x.__class__.__name__ == 'match_case':
                        if x.guard is not None:
                            expr_walrus(x.guard, g)
                        stmts(x.body, g)
                    elif isinstance(x, ast.withitem):
                        expr_walrus(x.context_expr, g)

    def inner(body, decl):
        # inside a function / class only names declared global there bind in the module
        for st in body:
            if isinstance(st, (ast.FunctionDef, ast.AsyncFunctionDef, ast.ClassDef)):
                if st.name in decl:
                    out.add(st.name)
                d2 = set()
                for n in (ast.walk(st) if not isinstance(st, ast.ClassDef) else st.body):
                    if isinstance(n, ast.Global):
                        d2.update(n.names)
                inner(st.body, d2)
            else:
                visit(st, decl)
    stmts(tree.body, None)
    return out


def project(src):
    t = ast.parse(src)
    for n in ast.walk(t):
        for c in ast.iter_child_nodes(n):
            c._p = n
    attrs, kwargs, imports, classattrs, params, dunders = [], [], [], [], [], []
    for n in ast.walk(t):
        if isinstance(n, ast.Attribute):
            attrs.append(n.attr)
        elif isinstance(n, ast.keyword) and n.arg is not None:
            kwargs.append(n.arg)
        elif isinstance(n, ast.Import):
            imports += [a.name for a in n.names]
        elif isinstance(n, ast.ImportFrom):
            imports += ['%s%s:%s' % ('.' * n.level, n.module or '', a.name) for a in n.names]
        elif isinstance(n, ast.ClassDef):
            names = []
            _class_body_names(n.body, names)
            classattrs.append('{' + ','.join(sorted(names)) + '}')
        elif isinstance(n, ast.Name) and n.id.startswith('__') and n.id.endswith('__'):
            dunders.append(n.id)
        if isinstance(n, (ast.FunctionDef, ast.AsyncFunctionDef, ast.Lambda)):
            a = n.args
            pos = list(a.args)
            is_method = False
            if not isinstance(n, ast.Lambda) and not a.posonlyargs and pos:
                # nearest enclosing scope is a class (the method may sit under an `if` / `try` inside the class body)
                q = getattr(n, '_p', None)
                while q is not None and not isinstance(q, (ast.ClassDef, ast.FunctionDef, ast.AsyncFunctionDef, ast.Lambda, ast.Module)):
                    q = getattr(q, '_p', None)
                decs = n.decorator_list
                if isinstance(q, ast.ClassDef) and (len(decs) == 0 or (len(decs) == 1 and isinstance(decs[0], ast.Name) and decs[0].id == 'classmethod')):
                    is_method = True         # documented: the first parameter of such a method may be renamed
            params.append(['M' if is_method else 'F'] + [x.arg for x in pos] + ['*'] + [x.arg for x in a.kwonlyargs])
    modbound = module_bound(t)
    unbound = set()
    try:
        st = symtable.symtable(src, 'm', 'exec')

        def walk(tab, top):
            for s in tab.get_symbols():
                nm = s.get_name()
                if nm in modbound:
                    continue
                if top:
                    # at module level every referenced name that the module does not bind (PEP 709 makes comprehension
                    # variables look like module symbols: they are assigned, hence not counted)
                    if s.is_referenced() and not (s.is_assigned() or s.is_imported() or s.is_namespace()):
                        unbound.add(nm)
                elif s.is_global() and s.is_referenced() and not s.is_assigned():
                    unbound.add(nm)
            for c in tab.get_children():
                walk(c, False)
        walk(st, True)
    except SyntaxError:
        pass
    return {'attrs': sorted(attrs), 'kwargs': sorted(kwargs), 'imports': sorted(imports), 'classattrs': classattrs, 'params': params,
            'dunders': sorted(dunders), 'unbound': sorted(unbound), 'modbound': sorted(modbound)}


def observe(job):
    """job: {id, src(bytes), opts}. minify with structure-preserving options and project both sides."""
    import python_minifier
    from .local import kwargs_of
    src = job['src']
    try:
        a = project(src)
    except (SyntaxError, ValueError, RecursionError):
        return {'id': job['id'], 'skip': 'input'}
    try:
        out = python_minifier.minify(src, **kwargs_of(job['opts']))
    except BaseException as e:  # noqa
        return {'id': job['id'], 'skip': 'minify-raised:' + type(e).__name__}
    try:
        b = project(out)
    except (SyntaxError, ValueError, RecursionError):
        return {'id': job['id'], 'skip': 'output'}
    rec = {'id': job['id'], 'rename_globals': bool(job['opts'].get('rename_globals', False))}
    # which first parameters are given up is decided on the input (an aliased `classmethod` decorator must not change it)
    if len(a['params']) == len(b['params']):
        pa, pb = [], []
        for x, y in zip(a['params'], b['params']):
            drop = 2 if x[0] == 'M' else 1
            pa.append('(' + ','.join(x[drop:]) + ')')
            pb.append('(' + ','.join(y[drop:]) + ')')
        a['params'], b['params'] = pa, pb
    else:
        a['params'] = [','.join(x) for x in a['params']]
        b['params'] = [','.join(x) for x in b['params']]
    for k in a:
        rec[k + '_in'] = a[k]
        rec[k + '_out'] = b[k]
    added = sorted(set(b['modbound']) - set(a['modbound']))
    rec['added'] = [{'name': n, 'underscore': n.startswith('_')} for n in added]
    return rec


def main():
    """worker loop for running the projection under another interpreter (3.11: symtable without PEP 709 inlining)"""
    import base64
    import json
    import sys
    sys.setrecursionlimit(5000)
    out = sys.stdout
    sys.stdout = sys.stderr
    for line in sys.stdin:
        line = line.strip()
        if not line:
            continue
        j = json.loads(line)
        j['src'] = base64.b64decode(j.pop('src_b64'))
        try:
            r = observe(j)
        except BaseException as e:  # noqa
            r = {'id': j['id'], 'skip': 'projection-error:' + type(e).__name__ + ':' + str(e)[:80]}
        out.write(json.dumps(r) + '\n')
        out.flush()


def run_under(version, jobs, procs=16):
    """run observe() for every job in interpreter `version`; jobs: {id, src (bytes), opts}"""
    import base64
    import json
    import subprocess
    from .common import interpreter, VERIF
    exe = interpreter(version)
    chunks = [jobs[k::procs] for k in range(procs)]
    ps = []
    for ch in chunks:
        if not ch:
            continue
        data = ''.join(json.dumps({'id': j['id'], 'src_b64': base64.b64encode(j['src']).decode(), 'opts': j['opts']}) + '\n' for j in ch)
        p = subprocess.Popen([exe, '-B', '-W', 'ignore', '-c', 'import sys; sys.path.insert(0, %r); from harness import interface; interface.main()' % VERIF],
                             stdin=subprocess.PIPE, stdout=subprocess.PIPE, stderr=subprocess.DEVNULL, cwd=VERIF)
        ps.append((p, data))
    import threading
    results = []

    def comm(p, data):
        o, _ = p.communicate(data.encode())
        for line in o.decode().splitlines():
            if line.strip():
                results.append(json.loads(line))
    ts = [threading.Thread(target=comm, args=pd) for pd in ps]
    for t in ts:
        t.start()
    for t in ts:
        t.join()
    return results


if __name__ == '__main__':
    main()
