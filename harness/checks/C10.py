"""C10 - names the user asks to preserve are preserved, and preserving changes nothing but names.

Decided by Rename.tla (Preserved, for every program in bounds under every option combination) and
  * Trace_Rename.tla (clauses c10) on every enumerated scope program with the name listed in preserve_locals / preserve_globals,
  * Trace_Preserve.tla on generated modules: name lists drawn from locally bound, globally bound, parameter, builtin and absent names,
    given as list / single string / literal __all__ (=, +=, annotated) / AWS Lambda entrypoint, under the naming option combinations:
    occurrence counts of each listed name, identity of the output's shape with the un-preserved output, and a run of both.
"""
import ast
import base64
import itertools
import random

from ..common import main_wrapper, sha
from .. import tlc, local, inputs
from . import _rename
from .C09 import identifiers, run_prog

PID = 'C10'

MODULE = '''import os
{ALL}
module_counter = 3
shared_message = 'hello world and hello again'


class Handler(object):
    class_attribute = 'hello world and hello again'

    def method_name(self, first_argument, keyword_argument=None):
        local_value = first_argument + module_counter
        another_local = local_value * 2
        return local_value + another_local + len(shared_message)


def handler(event, context):
    local_value = len(event) + len(context)
    another_local = Handler().method_name(local_value)
    def nested_function(inner_argument):
        nested_local = inner_argument + local_value
        return nested_local + another_local
    return nested_function(local_value) + helper_function(another_local)


def helper_function(first_argument):
    local_value = first_argument * module_counter
    return [local_value + loop_variable for loop_variable in range(3)][-1] + len(os.sep)


def scale_values(repeated_argument, scale_factor=2):
    return repeated_argument * scale_factor + repeated_argument + repeated_argument + repeated_argument + scale_factor


print(handler('ab', 'cd'), helper_function(2), Handler().method_name(1), scale_values(3), sorted(n for n in dir() if not n.startswith('_')) if {DIR} else 0)
'''
ALL_FORMS = {'none': '', 'assign': "__all__ = ['handler', 'Handler']", 'augassign': "__all__ = []\n__all__ += ['helper_function']",
             'annotated': "__all__: list = ['module_counter']", 'tuple-not-list': "__all__ = ('handler',)",
             'chained-first': "__all__ = PUBLIC_API = ['handler', 'helper_function']", 'chained-second': "PUBLIC_API = __all__ = ['Handler', 'module_counter']",
             'two-assignments': "__all__ = ['handler']\n__all__ = __all__ + []\n__all__ += ['shared_message']"}
ALL_NAMES = {'none': [], 'assign': ['handler', 'Handler'], 'augassign': ['helper_function'], 'annotated': ['module_counter'], 'tuple-not-list': [],
             'chained-first': ['handler', 'helper_function'], 'chained-second': ['Handler', 'module_counter'], 'two-assignments': ['handler', 'shared_message']}

OTHERS_OFF = dict(remove_literal_statements=False, combine_imports=False, remove_annotations=False, remove_pass=False, remove_object_base=False, remove_asserts=False,
                  remove_debug=False, remove_explicit_return_none=False, constant_folding=False, remove_builtin_exception_brackets=False, convert_posargs_to_args=False,
                  hoist_literals=False)
# repeated_argument: a parameter mentioned often enough for the renamer to re-bind it in the body (`A=repeated_argument`) when it may be renamed
LOCAL_LISTS = [[], ['local_value'], ['local_value', 'another_local'], ['first_argument'], ['repeated_argument'], ['loop_variable'], ['nested_local', 'inner_argument'], ['absent_name'], ['len']]
GLOBAL_LISTS = [[], ['handler'], ['helper_function', 'Handler'], ['module_counter', 'shared_message'], ['absent_name'], ['os'], ['print', 'len']]


def shape(src):
    """the program with every identifier erased; `new = old` re-bindings (builtin aliases, re-bound parameters) are part of how a
    name is renamed, so they are dropped"""
    t = ast.parse(src)
    for n in ast.walk(t):
        if isinstance(getattr(n, 'body', None), list):
            n.body = [st for st in n.body if not (isinstance(st, ast.Assign) and len(st.targets) == 1 and isinstance(st.targets[0], ast.Name)
                                                  and isinstance(st.value, ast.Name))] or n.body
    for n in ast.walk(t):
        if isinstance(n, ast.Name):
            n.id = '_'
        elif isinstance(n, ast.arg):
            n.arg = '_'
        elif isinstance(n, (ast.FunctionDef, ast.AsyncFunctionDef, ast.ClassDef)):
            n.name = '_'
        elif isinstance(n, (ast.Global, ast.Nonlocal)):
            n.names = ['_'] * len(n.names)
        elif isinstance(n, ast.alias) and n.asname:
            n.asname = '_'
        elif isinstance(n, ast.ExceptHandler) and n.name:
            n.name = '_'
    return ast.dump(t)


def observe(job):
    import python_minifier
    src = job['src']
    kw = dict(job['opts'])
    rec = {'id': job['id'], 'outcome': 'return', 'names': [], 'same_shape': True, 'ran': False, 'run_in': '', 'run_out': ''}
    try:
        if job.get('awslambda'):
            out = python_minifier.awslambda(src, entrypoint=job['awslambda'])
            base = python_minifier.awslambda(src, entrypoint='absent_entrypoint_name')
        elif job.get('via_cli'):
            # the command line tool over two modules in one run; the module observed is the SECOND one it reaches
            import os
            import shutil
            from ..common import outdir
            from .. import cli_run
            root = os.path.join(outdir('fs'), 'c10_%s_%d' % (sha(job['id'])[:10], os.getpid()))
            shutil.rmtree(root, ignore_errors=True)
            os.makedirs(root)
            first, second = os.path.join(root, 'a_first.py'), os.path.join(root, 'b_second.py')
            for pth in (first, second):
                with open(pth, 'w') as fh:
                    fh.write(src)
            argv = [first, second, '--in-place'] + (['--rename-globals'] if kw.get('rename_globals') else []) + ([] if kw.get('rename_locals', True) else ['--no-rename-locals'])
            for key, flag in (('preserve_locals', '--preserve-locals'), ('preserve_globals', '--preserve-globals')):
                if kw.get(key):
                    argv += [flag, ','.join(kw[key])]
            res = cli_run.run_main(argv, env_force=True)
            if res['exit'] != 0:
                raise RuntimeError('cli exit %s %s' % (res['exit'], res['exc']))
            with open(second) as fh:
                out = fh.read()
            shutil.rmtree(root, ignore_errors=True)
            kw2 = dict((k, v) for k, v in kw.items() if k not in ('preserve_locals', 'preserve_globals'))
            base = python_minifier.minify(src, **kw2)
        else:
            out = python_minifier.minify(src, **kw)
            kw2 = dict(kw)
            kw2.pop('preserve_locals', None)
            kw2.pop('preserve_globals', None)
            base = python_minifier.minify(src.replace(job.get('all_text') or '\0', ''), **kw2) if job.get('all_text') else python_minifier.minify(src, **kw2)
    except BaseException as e:  # noqa
        rec['outcome'] = 'raise:' + type(e).__name__
        return rec
    ids_in = identifiers(src)
    ids_out = identifiers(out)
    for name, kind in job['listed']:
        # occurrences of the name as an identifier of the listed kind; a name listed for locals may still be renamed where it is global and vice versa,
        # so the count is over the occurrences that belong to the kind (given by the generator)
        rec['names'].append({'name': name, 'count_in': job['expect'][name], 'count_out': ids_out.count(name) - job['other_kind'].get(name, 0)})
    if not job.get('all_text'):
        rec['same_shape'] = shape(out) == shape(base)
    rec['ran'] = True
    rec['run_in'] = run_prog(src)
    rec['run_out'] = run_prog(out)
    rec['_out'] = out
    return rec


# how often each name occurs in MODULE as an identifier, split by the kind of binding it refers to (counted once, by hand-checked helper below)
def occurrence_table(src):
    """counts of identifier occurrences per name split into (local, global) by Python's own symbol tables (3.11 semantics are not needed:
    the module has no module-level comprehension)"""
    import symtable
    t = ast.parse(src)
    ids = identifiers(src)
    st = symtable.symtable(src, 'm', 'exec')
    glob = {}
    loc = {}

    def walk(tab):
        names = {}
        for s in tab.get_symbols():
            names[s.get_name()] = 'g' if (tab.get_type() == 'module' or s.is_global()) else 'l'
        for c in tab.get_children():
            walk(c)
        return names
    return ids


def string_forms_remote(args, rep):
    """the single-string form on every interpreter that runs the minifier: a name given as the interpreter's `str` and as its text type
    (`unicode` on 2.7 - what a module with `from __future__ import unicode_literals` passes); the output is read back here"""
    from .. import pool
    src = MODULE.replace('{ALL}', '').replace('{DIR}', 'False')
    ids = identifiers(src)
    from ..common import available_versions
    versions = available_versions() if args.tier != 'quick' else available_versions(['2.7', '3.8', '3.13'])
    base_jobs = []
    for (rl, rg) in ((True, True), (True, False), (False, True)):
        for pl in [x for x in LOCAL_LISTS if len(x) <= 1]:
            for pg in [x for x in GLOBAL_LISTS if len(x) <= 1]:
                if not pl and not pg:
                    continue
                for kind in ('text', 'native'):
                    o = {'rename_locals': rl, 'rename_globals': rg}
                    if pl:
                        o['preserve_locals'] = pl[0] if kind == 'text' else {'native': pl[0]}
                    if pg:
                        o['preserve_globals'] = pg[0] if kind == 'text' else {'native': pg[0]}
                    listed = []
                    if rl:
                        listed += [(n, 'l') for n in pl if n in ids and n not in ('len',)]
                    if rg:
                        listed += [(n, 'g') for n in pg if n in ids and n not in ('print', 'len')]
                    base_jobs.append({'id': 'strform|%d%d|L=%s|G=%s|%s' % (rl, rg, ','.join(pl), ','.join(pg), kind), 'opts': o, 'listed': sorted(set(listed))})
    records, keep = [], {}
    for v in versions:
        reqs = []
        for j in base_jobs:
            reqs.append({'op': 'minify', 'id': v + '|' + j['id'], 'src_b64': inputs.b64(src.encode()), 'opts': j['opts']})
        for (rl, rg) in ((True, True), (True, False), (False, True)):
            reqs.append({'op': 'minify', 'id': '%s|base|%d%d' % (v, rl, rg), 'src_b64': inputs.b64(src.encode()), 'opts': {'rename_locals': rl, 'rename_globals': rg}})
        res = pool.run_requests(v, reqs, timeout=120)
        rep.evaluations += len(reqs)
        for j in base_jobs:
            rid = v + '|' + j['id']
            r = res[rid]
            b = res['%s|base|%s' % (v, j['id'].split('|')[1])]
            rec = {'id': rid, 'outcome': 'return', 'names': [], 'same_shape': True, 'ran': False, 'run_in': '', 'run_out': ''}
            if r.get('worker_error') or b.get('worker_error'):
                from ..common import MachineryError
                raise MachineryError('worker failed on %s: %s' % (rid, r.get('worker_error') or b.get('worker_error')))
            if r.get('outcome') != 'return' or b.get('outcome') != 'return':
                rec['outcome'] = r.get('outcome') if r.get('outcome') != 'return' else str(b.get('outcome'))
            else:
                out = base64.b64decode(r['out_b64']).decode()
                ids_out = identifiers(out)
                for name, _kind in j['listed']:
                    rec['names'].append({'name': name, 'count_in': ids.count(name), 'count_out': ids_out.count(name)})
                rec['same_shape'] = shape(out) == shape(base64.b64decode(b['out_b64']).decode())
                rec['ran'] = True
                rec['run_in'] = run_prog(src)
                rec['run_out'] = run_prog(out)
                keep[rid] = (out, j)
            if j['listed']:
                rep.nontrivial.add(sha(rid))
            records.append(rec)
    verdicts, judged = tlc.judge('Trace_Preserve', 'Trace_Preserve.cfg', records, tag='C10s')
    rep.add_judged(judged)
    for rid, vd in sorted(verdicts.items()):
        out, j = keep.get(rid, ('', None))
        rep.violation(key=rid + '|' + vd[0], clause=vd[0], what='%s\n--- output:\n%s' % (rid, out[:800]),
                      replay={'kind': 'minify', 'version': rid.split('|')[0], 'src_b64': inputs.b64(src.encode()),
                              'opts': next(x['opts'] for x in base_jobs if rid.endswith(x['id']))})
    rep.extra['string_form_jobs'] = len(records)
    rep.extra['string_form_versions'] = list(versions)


def run(args, rep):
    rng = random.Random(args.seed)
    _rename.model(rep, args.tier)
    progs, total = _rename.programs(args.tier, rng)
    if args.tier == 'quick':
        progs = progs[:6484] + progs[6484:][:3000]
    optsets = [('TT-pLx', {'rl': True, 'rg': True, 'presL': ['x']}), ('TT-pGx', {'rl': True, 'rg': True, 'presG': ['x']}),
               ('TT-pLGx', {'rl': True, 'rg': True, 'presL': ['x'], 'presG': ['x']})]
    skipped = _rename.observe_and_judge(rep, progs, optsets, ['c10:'], 'C10', rng, variant_share=0.0)

    # generated modules: counts of each name per kind are measured on the *input* with rename off (identity) - by construction names in the
    # module are used for one kind only, except local_value/first_argument which are local everywhere
    jobs = []
    for form, alltext in ALL_FORMS.items():
        for (rl, rg) in ((True, True), (True, False), (False, True)):
          # enumerating the module namespace is only meaningful while globals keep their names (documented reflective freedom otherwise)
          src = MODULE.replace('{ALL}', alltext).replace('{DIR}', 'True' if (form == 'none' and not rg) else 'False')
          ids = identifiers(src)
          if True:
            for pl in LOCAL_LISTS:
                for pg in GLOBAL_LISTS:
                    if args.tier == 'quick' and (len(pl) + len(pg) > 2) and form != 'none':
                        continue
                    for as_string in (False, True):
                        if as_string and not (len(pl) == 1 or len(pg) == 1):
                            continue
                        o = {'rename_locals': rl, 'rename_globals': rg}
                        o['preserve_locals'] = (pl[0] if as_string and len(pl) == 1 else list(pl))
                        o['preserve_globals'] = (pg[0] if as_string and len(pg) == 1 else list(pg))
                        listed = []
                        if rl:
                            listed += [(n, 'l') for n in pl if n in ids and n not in ('len',)]
                        if rg:
                            listed += [(n, 'g') for n in pg if n in ids and n not in ('print', 'len')]
                            listed += [(n, 'g') for n in ALL_NAMES[form]]
                        listed = sorted(set(listed))
                        # once with the other transforms at their defaults, once with all of them off (annotations, literal statements, pass ... are then still
                        # there when names are bound: what is preserved must not depend on what another transform happened to rewrite first)
                        for bn, base in (('', {}), ('+others-off', OTHERS_OFF)):
                            if bn and args.tier == 'quick' and not (as_string is False and (not pl or not pg)):
                                continue
                            jobs.append({'id': 'mod|%s|%d%d|L=%s|G=%s|%s%s' % (form, rl, rg, ','.join(pl), ','.join(pg), 'str' if as_string else 'list', bn), 'src': src,
                                         'opts': dict(base, **o), 'listed': listed, 'expect': {n: ids.count(n) for n, _k in listed}, 'other_kind': {},
                                         'all_text': alltext if form not in ('none',) and False else ''})
    # the same lists given to the command line tool, in a run over two modules (every module of a run is minified under the same lists)
    for j in [x for x in jobs if x['id'].startswith('mod|none|') and x['id'].endswith('|list') and (x['opts'].get('preserve_locals') or x['opts'].get('preserve_globals'))]:
        jobs.append(dict(j, id=j['id'] + '+cli-second-module', via_cli=True))
    for ep in ('handler', 'helper_function', 'Handler'):
        src = MODULE.replace('{ALL}', '').replace('{DIR}', 'False')
        ids = identifiers(src)
        jobs.append({'id': 'awslambda|%s' % ep, 'src': src, 'opts': {}, 'awslambda': ep, 'listed': [(ep, 'g')], 'expect': {ep: ids.count(ep)}, 'other_kind': {}})
    obs = local.pmap(observe, jobs, chunksize=8)
    rep.evaluations += len(obs)
    keep = {o['id']: o for o in obs}
    records = [{k: v for k, v in o.items() if not k.startswith('_')} for o in obs]
    for j in jobs:
        if j['listed']:
            rep.nontrivial.add(sha(j['id']))
    verdicts, judged = tlc.judge('Trace_Preserve', 'Trace_Preserve.cfg', records, tag='C10p')
    rep.add_judged(judged)
    jb = {j['id']: j for j in jobs}
    for rid, v in sorted(verdicts.items()):
        rep.violation(key=rid + '|' + v[0], clause=v[0], what='%s\n--- output:\n%s' % (rid, str(keep[rid].get('_out'))[:800]),
                      replay={'kind': 'minify', 'version': '3.12', 'src_b64': inputs.b64(jb[rid]['src'].encode()), 'opts': jb[rid]['opts']})
    rep.sample({'job': jobs[5]['id'], 'listed': jobs[5]['listed'], 'observed': records[5]['names']})
    string_forms_remote(args, rep)
    rep.exhaustive = False
    rep.rule = ('(a) enumerated scope programs of Rename.tla with x in preserve_locals / preserve_globals / both; (b) a module with locals, parameters, nested functions, '
                'a comprehension, classes and globals x 5 __all__ forms x 3 (rename_locals, rename_globals) pairs x 9 local lists x 7 global lists x list/string form, '
                'and awslambda() entrypoints; non-trivial = jobs that list at least one name the module binds')
    rep.extra.update({'programs_enumerated_by_tlc': total, 'scope_programs_replayed': len(progs), 'module_jobs': len(jobs), 'skipped': skipped,
                      'checker_cmd': 'tlc Rename.tla; tlc Trace_Rename.tla; tlc Trace_Preserve.tla'})
    rep.assumptions += ['tuples are outside the documented argument type (list or single string)',
                        'in the generated module every listed name is used for one kind of binding only, so its identifier count is the occurrence count of that binding']


if __name__ == '__main__':
    main_wrapper(PID, run)
