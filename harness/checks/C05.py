"""C05 - each option performs only its documented rewrite, only where it is valid.

Decided by SuiteS.tla / Suite.tla (S: one rewrite step per documented option with its side condition, Allowed = everything reachable, the non-empty
rule; M: the transformers as written in pipeline order; TLC checks MOut in Allowed and properties of S for every block up to length 2 (quick) / 3
(thorough) in 16 contexts under every subset of the options relevant to the block, with the irrelevant ones all off and all on) and Trace_Suite.tla
judging the real transformers on the enumerated cases: the output suite is classified back into the alphabet and must be in Allowed; input and
output are run with optimize=0 and optimize=1.
"""
import random

from ..common import main_wrapper, sha, MachineryError
from . import _suitecorpus
from .. import tlc, local, suitegen, inputs

PID = 'C05'


CLASS_CONTEXTS = ('class', 'dataclass', 'dataclass_if', 'dataclass_second', 'dataclass_call', 'dataclass_name', 'namedtuple', 'namedtuple_name', 'typeddict',
                  'dataclass_after_inner', 'namedtuple_after_inner', 'class_after_dataclass')
# contexts in which the first statement of the block is in docstring position (of the module, a function or a class)
DOCSTRING_CONTEXTS = ('module_top', 'function', 'class', 'dataclass', 'dataclass_second', 'dataclass_call', 'dataclass_name', 'namedtuple', 'namedtuple_name', 'typeddict')


def run(args, rep):
    rng = random.Random(args.seed)
    cfg = 'MC_Suite2.cfg' if args.tier == 'quick' else 'MC_Suite3.cfg'
    r = tlc.check_model('Suite', cfg, timeout=4 * 3600)
    rep.add_model('Suite/' + cfg, r)
    if r.violated:
        raise MachineryError('Suite.tla: M does not satisfy S (%s) - the model of the transformers is out of date' % r.violated)
    c1, _ = tlc.cached_export('Suite', 'Export_Suite1.cfg')
    c2, _ = tlc.cached_export('Suite', 'Export_Suite2.cfg', timeout=3600)
    c2 = [c for c in c2 if len(c['blk']) == 2]
    total = len(c1) + len(c2)
    rng.shuffle(c2)
    scoped = [c for c in c2 if any(st[0] == 'dbg_yield' for st in c['blk']) and 'remove_debug' in c['opts']]
    scoped += [c for c in c2 if any(st[0] in ('dbg_bind', 'assert_bind', 'dbg_global', 'ann_zq') for st in c['blk']) and any(st[0] in ('use_zq', 'nl_zq', 'set_zq', 'dbg_bind', 'assert_bind') for st in c['blk'])]
    scoped += [c for c in c2 if c['ctx'] in ('dataclass_after_inner', 'namedtuple_after_inner', 'class_after_dataclass') and any(st[0] in ('annval', 'annnoval') for st in c['blk'])
               and ('ann_class' in c['opts'])]
    rng.shuffle(scoped)
    # thorough: a sample seven times the quick one (all 380 000 length-2 cases do not finish in hours; the model run covers them all, and length 3 on the core alphabet)
    n2, nscoped = (8000, 3000) if args.tier == 'quick' else (60000, 20000)
    scoped = scoped[:nscoped]
    head = c2[:n2]
    seen = set(id(c) for c in head)
    cases = c1 + head + [c for c in scoped if id(c) not in seen]
    jobs = [{'id': 's%d' % k, 'ctx': c['ctx'], 'env': c['env'], 'blk': c['blk'], 'opts': c['opts'], 'm': c['m']} for k, c in enumerate(cases)]
    # every case in which the module uses the __doc__ name, once per spelling of that use (read, augmented assignment, assignment, read in a function, del)
    for j in list(jobs):
        if j['env'].get('usesDoc'):
            for du in sorted(suitegen.DOC_USE):
                if du != 'load':
                    jobs.append(dict(j, id='%s+%s' % (j['id'], du), doc_use=du))
    obs = local.pmap(suitegen.observe, jobs, chunksize=64)
    rep.evaluations += len(obs)
    keep = {}
    records = []
    drift = 0
    for j, o in zip(jobs, obs):
        if o.get('skip'):
            continue
        keep[o['id']] = o
        records.append({k: v for k, v in o.items() if not k.startswith('_')})
        if o['out_blk'] != [list(x) for x in o['blk']]:
            rep.nontrivial.add(sha(repr((o['ctx'], o['env'], o['blk'], o['opts']))))
        if o['located'] and o['out_blk'] != j['m']:
            drift += 1          # the code did something other than the implementation-shaped model predicted (informational)
    verdicts, judged = tlc.judge('Trace_Suite', 'Trace_Suite.cfg', records, tag='C05')
    rep.add_judged(judged)
    for rid, v in sorted(verdicts.items()):
        if v[0].startswith('machinery:'):
            raise MachineryError('%s on %s: %s' % (v[0], rid, keep[rid].get('msg')))
        o = keep[rid]
        shape = ('doc-%s|' % rid.split('+')[1] if '+' in rid else '') + '%s|%s|%s|%s' % (o['ctx'], ','.join(k for k, val in sorted(o['env'].items()) if val), ';'.join('.'.join(st) for st in o['blk']), ','.join(o['opts']))
        # a string statement that was not first in a module becomes its docstring once what preceded it is removed (known finding D20)
        promoted = (o['ctx'] in DOCSTRING_CONTEXTS and o['blk'][0] != ['litstr'] and o['out_blk'][:1] == [['litstr']] and v[0].startswith('c05:behaviour'))
        # a removed assert / `if __debug__:` block held the only binding of a name the function still looks up (known finding D27 = KF_D27 of SuiteS.tla)
        kinds = [st[0] for st in o['blk']]
        infn = o['ctx'] in ('function', 'function_if')
        own_scope = infn or o['ctx'] in CLASS_CONTEXTS
        d27 = (((infn and ('use_zq' in kinds or 'nl_zq' in kinds)
                 and (('remove_debug' in o['opts'] and 'dbg_bind' in kinds) or ('remove_asserts' in o['opts'] and 'assert_bind' in kinds)))
                or (infn and 'remove_debug' in o['opts'] and 'dbg_yield' in kinds)
                or (own_scope and 'remove_debug' in o['opts'] and 'dbg_global' in kinds and any(k in kinds for k in ('use_zq', 'nl_zq', 'set_zq', 'dbg_bind', 'assert_bind'))))
               and v[0] in ('c05:output-suite-not-among-the-documented-rewrites', 'c05:behaviour-under-O-differs', 'c05:minify-raised:raise:SyntaxError'))
        rep.violation(key=('D20:' if promoted else 'D27:' if d27 else '') + shape + '|' + v[0], clause=v[0],
                      what='%s -> %s\n%s--- output:\n%s\nruns: O0 %s / %s ; O1 %s / %s' % (shape, o['out_blk'], o.get('_src'), o.get('_out'), o['run0_in'], o['run0_out'], o['run1_in'], o['run1_out']),
                      replay={'kind': 'suite', 'check': 'C05', 'ctx': o['ctx'], 'env': o['env'], 'blk': o['blk'], 'opts': o['opts'], 'doc_use': rid.split('+')[1] if '+' in rid else 'load'})
    for o in list(keep.values())[:1] + [x for x in keep.values() if x['out_blk'] != x['blk']][:2]:
        rep.sample({'context': o['ctx'], 'block': o['blk'], 'options': o['opts'], 'output_block': o['out_blk'], 'source': o.get('_src', '')[-300:]})
    # real modules: erase the documented rewrites on both sides and compare (tied to SuiteS.tla case by case first)
    _suitecorpus.corpus_section(args, rep, rng)
    rep.exhaustive = False
    nsym = len(set(tuple(st) for c in c1 for st in c['blk']))
    nctx = len(set(c['ctx'] for c in c1))
    rep.rule = ('cases = (context, environment, block, options) exported by TLC from Suite.tla: every block of length 1 (%d cases) and length 2 (%d cases; '
                'quick: seeded 8 000 plus up to 3 000 of the cases that pair a name-binding assert / __debug__ block with a lookup of the name) over %d statement symbols in %d contexts, '
                'options = every subset of those relevant to the block with the rest all off / all on; '
                'non-trivial = distinct cases whose output block differs from the input block' % (len(c1), len(c2), nsym, nctx))
    rep.extra.update({'cases_enumerated_by_tlc': total, 'cases_replayed': len(cases), 'model_drift_cases': drift,
                      'checker_cmd': 'tlc Suite.tla (%s); tlc Trace_Suite.tla over ndjson observations' % cfg})
    rep.assumptions += ['statement-local classifier (harness/suitegen.py) maps output statements back to the alphabet; anything unrecognised is "unknown" and hence not allowed',
                        'the "bisimilar compiled code" wording of the property is approximated by the AST-level Allowed relation plus execution under optimize 0 and 1']


def replay(rp):
    if rp.get('kind') == 'suite-corpus':
        import base64
        from .. import suitecanon
        name, optset = rp['id'].rsplit('|', 1)
        for r in suitecanon.observe_module({'id': name, 'src': base64.b64decode(rp['src_b64']), 'optsets': {optset: rp['opts']}}):
            print(r)
        return
    o = suitegen.observe({'id': 'replay', 'ctx': rp['ctx'], 'env': rp['env'], 'blk': rp['blk'], 'opts': rp['opts'], 'doc_use': rp.get('doc_use', 'load')})
    print(o.get('_src'))
    print('--- output')
    print(o.get('_out'))
    print({k: v for k, v in o.items() if not k.startswith('_')})
    v, _ = tlc.judge('Trace_Suite', 'Trace_Suite.cfg', [{k: v for k, v in o.items() if not k.startswith('_')}], tag='replay')
    print('verdict now:', v.get('replay', ['ok'])[0])


if __name__ == '__main__':
    main_wrapper(PID, run)
