"""C08 - every compilable module is minified without error into a compilable module;
unparsable source gives SyntaxError and nothing else.

Decided by Pipeline.tla (M |= S exhaustively over all option sets x taint x parsable) and
Trace_Pipeline.tla judging executions of the real minify():
  * in-process on the orchestrator interpreter with the outside seams (stage events are judged too),
  * through harness/worker.py on every installed interpreter version (outcome clause only).
"""
from __future__ import print_function

import random

from ..common import main_wrapper, available_versions, sha, MachineryError
from .. import tlc, local, pool, corpus, inputs

PID = 'C08'


def generated_sources(tier, rng):
    """compilable programs out of the other specifications' input spaces: every string of Quote.tla's alphabet (and the attack strings) in every
    literal context of C12 - plain, f-string text, nested literal, nested call, format spec, nested f-string, bytes - and the expression shapes
    of FoldGate.tla.  Other checks look at what minify() does with them; this one only at whether it returns something that compiles."""
    from . import C12 as c12
    out = []
    todo = [t for t in c12.strings(3 if tier == 'quick' else 4)]
    short = [t for t in todo if len(t) <= 2]
    rest = [t for t in todo if len(t) > 2]
    rng.shuffle(rest)
    att = c12.attack_strings()
    rng.shuffle(att)
    for t in short + rest[:600 if tier == 'quick' else 20000] + att[:60 if tier == 'quick' else None]:
        s = ''.join(c12.CH[c] for c in t)
        for ctx, src in c12.contexts(s):
            out.append(('lit:%s:%s' % ('.'.join(t), ctx), src.encode('utf-8', 'surrogatepass')))
    cases, _ = tlc.cached_export('FoldGate', 'Export_FoldGate.cfg', timeout=3600)
    idx = list(range(len(cases)))
    rng.shuffle(idx)
    for k in sorted(idx[:1500 if tier == 'quick' else 30000]):
        # names instead of the canary import: the module must compile, it is never run
        text = c12.expr_text(cases[k]['e']).replace('__import__("zq_canary_mod")', 'zq_canary_call()')
        out.append(('gate:%d' % k, ('x = %s\n' % text).encode()))
    return out


def local_jobs(tier, rng):
    jobs = []
    files, skipped = corpus.stdlib('3.12', 120 if tier == 'quick' else 300)
    srcs = [('file:' + p, b) for p, b in files]
    srcs += [('repo:' + p, b) for p, b in corpus.repo_sources()]
    srcs += inputs.shapes('3.12')
    gen = generated_sources(tier, rng)
    optsets = dict(inputs.OPTSETS)
    for k in range(2 if tier == 'quick' else 8):
        optsets['rnd%d' % k] = inputs.random_optset(rng)
    for name, b in srcs:
        for on, o in optsets.items():
            if on.startswith('rnd') and name.startswith('file:') and tier == 'quick':
                continue
            jobs.append({'id': '%s|%s|3.12' % (name, on), 'src': b, 'opts': o, 'name': name, 'optset': on})
    for name, b in gen:
        for on in ('default', 'all'):
            jobs.append({'id': '%s|%s|3.12' % (name, on), 'src': b, 'opts': {} if on == 'default' else local.ALL_ON, 'name': name, 'optset': on})
    # corrupted sources: the SyntaxError clause
    small = [(n, b) for n, b in srcs if len(b) < 3000]
    rng.shuffle(small)
    for n, b in small[:40 if tier == 'quick' else 200]:
        for how in inputs.CORRUPTIONS:
            c = inputs.corrupt(b, how, rng)
            if c is not None:
                jobs.append({'id': 'corrupt:%s:%s|default|3.12' % (how, n), 'src': c, 'opts': {}, 'name': 'corrupt:' + n,
                             'optset': 'default'})
    return jobs, skipped


def remote_requests(version, tier, rng):
    reqs = []
    srcs = inputs.shapes(version)
    g, s1 = corpus.grammar(version, 10 if tier == 'quick' else None)
    srcs += [('file:' + p, b) for p, b in g]
    f, s2 = corpus.stdlib(version, 12 if tier == 'quick' else 80)
    srcs += [('file:' + p, b) for p, b in f]
    optsets = {'default': {}, 'all': local.ALL_ON}
    if tier != 'quick':
        optsets['off'] = local.ALL_OFF
        optsets['rnd'] = inputs.random_optset(rng)
    if version != '2.7':
        gen = generated_sources(tier, random.Random(rng.random()))
        random.Random(0).shuffle(gen)
        for name, b in gen[:1500 if tier == 'quick' else 20000]:
            reqs.append({'op': 'minify', 'id': '%s|default|%s' % (name, version), 'src_b64': inputs.b64(b), 'as_bytes': True, 'opts': {}})
    for name, b in srcs:
        for on, o in optsets.items():
            reqs.append({'op': 'minify', 'id': '%s|%s|%s' % (name, on, version), 'src_b64': inputs.b64(b),
                         'as_bytes': True, 'opts': o})
    small = [(n, b) for n, b in srcs if len(b) < 3000][:10 if tier == 'quick' else 60]
    for n, b in small:
        for how in inputs.CORRUPTIONS[:3 if tier == 'quick' else None]:
            c = inputs.corrupt(b, how, rng)
            if c is not None:
                reqs.append({'op': 'minify', 'id': 'corrupt:%s:%s|default|%s' % (how, n, version),
                             'src_b64': inputs.b64(c), 'as_bytes': True, 'opts': {}})
    return reqs, s1 + s2


def to_record(rid, res):
    """worker response -> Trace_Pipeline record (no seams outside the orchestrator interpreter)."""
    return {'id': rid, 'seams': False, 'opts': {}, 'stages': [], 'tainted': False,
            'parses': bool(res.get('parses')), 'compiles': bool(res.get('compiles')),
            'outcome': res.get('outcome', 'raise:?'), 'syntaxerr': bool(res.get('syntaxerr', False)),
            'compiles_out': bool(res.get('compiles_out', False))}


def run(args, rep):
    rng = random.Random(args.seed)
    # (1) M |= S
    r = tlc.check_model('Pipeline', 'MC_Pipeline.cfg', coverage=True)
    rep.add_model('Pipeline/MC_Pipeline.cfg', r)
    if r.violated:
        raise MachineryError('Pipeline.tla: M does not satisfy S (%s) - the model of the code is out of date' % r.violated)
    rep.exhaustive = False

    # (2) code -> spec, orchestrator interpreter with seams
    jobs, skipped = local_jobs(args.tier, rng)
    obs = local.pmap(local.observe_minify, jobs)
    records = []
    meta = {}
    unjudgeable = 0
    for j, o in zip(jobs, obs):
        out = o.pop('out', None)
        if o.pop('unjudgeable', False):
            unjudgeable += 1
            continue
        meta[o['id']] = (j, o)
        rec = {k: o[k] for k in ('id', 'seams', 'opts', 'stages', 'tainted', 'parses', 'compiles', 'outcome', 'syntaxerr', 'compiles_out')}
        records.append(rec)
        rep.evaluations += 1
        if out is not None and out.encode('utf-8', 'surrogatepass') != j['src']:
            rep.nontrivial.add(sha(j['src']))
        if len(rep.samples) < 4 and j['name'].startswith('shape:'):
            rep.sample({'input': j['name'], 'options': j['optset'], 'version': '3.12', 'outcome': o['outcome'],
                        'compiles_out': o['compiles_out'], 'stages_run': [e['stage'] for e in o['stages']]})

    # (3) every installed interpreter through the worker
    per_version = {}
    versions = available_versions()
    for v in versions:
        if v == '3.12' and args.tier == 'quick':
            continue
        reqs, sk = remote_requests(v, args.tier, rng)
        skipped += sk
        res = pool.run_requests(v, reqs, timeout=180)
        n = 0
        for q in reqs:
            a = res.get(q['id'])
            if a is None or 'worker_error' in a:
                unjudgeable += 1
                continue
            if a.get('parse_err') in ('ValueError', 'RecursionError', 'MemoryError') or a.get('outcome') == 'raise:RecursionError':
                unjudgeable += 1
                continue
            rec = to_record(q['id'], a)
            meta[q['id']] = (q, a)
            records.append(rec)
            n += 1
            rep.evaluations += 1
            if a.get('outcome') == 'return' and a.get('out_b64') != q['src_b64']:
                rep.nontrivial.add(sha(q['src_b64']))
        per_version[v] = n
    per_version['3.12'] = per_version.get('3.12', 0) + len(jobs)

    verdicts, judged = tlc.judge('Trace_Pipeline', 'Trace_Pipeline.cfg', records, tag='C08')
    rep.add_judged(judged)
    for rid, v in sorted(verdicts.items()):
        clause = v[0]
        if not clause.startswith('outcome:'):
            continue        # gating clauses belong to C05 / C09
        j, o = meta[rid]
        name, optset, version = rid.rsplit('|', 2)
        src_b64 = j.get('src_b64') or inputs.b64(j['src'])
        rep.violation(key=rid, clause=clause,
                      what='%s options=%s python=%s outcome=%s %s' % (name, optset, version, o.get('outcome'), (o.get('msg') or o.get('compile_out_err') or '')[:100]),
                      replay={'kind': 'minify', 'version': version, 'src_b64': src_b64, 'opts': j.get('opts', {}), 'clause': clause})
    rep.rule = ('inputs: pinned stdlib modules, the repository sources, the hand-written shape bank, each interpreter\'s grammar '
                'test files and token-level corruptions of those; the literal contexts of C12 (every string over Quote.tla\'s alphabet up to length 3 [4] in 9 '
                'contexts) and expression shapes of FoldGate.tla; option sets: all off, defaults, everything on, seeded random; '
                'non-trivial = distinct sources whose minified text differs from the input')
    rep.extra.update({'records_per_version': per_version, 'unjudgeable_skipped': unjudgeable,
                      'corpus_files_skipped_hash_mismatch': skipped,
                      'seam_stages_missing': [],
                      'checker_cmd': 'tlc Pipeline.tla (MC_Pipeline.cfg); tlc Trace_Pipeline.tla over ndjson observations'})
    rep.assumptions += ['RecursionError / MemoryError / timeouts on pathologically deep input are not judged (stated limitation)',
                        'interpreters 3.3-3.5 are not installed',
                        'ValueError from the parser for NUL bytes is interpreter behaviour and is not judged']


if __name__ == '__main__':
    main_wrapper(PID, run)
