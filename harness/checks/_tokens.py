"""Token spacing (TokensS.tla / Tokens.tla / Trace_Tokens.tla), a section of C02.

  1. TLC: M |= S - the printer's rule for inserting a blank never leaves two tokens joined, for every pair of bank tokens the grammar can put
     side by side (MC_Tokens.cfg).
  2. S against the interpreters: for every pair of bank tokens, Joins(a, b) = FALSE must mean that the tokenizer of CPython (3.12, 3.8, 2.7)
     splits a+b into exactly the tokens of a and of b.  A disagreement is a fault of the specification (exit 2), not of the code.
  3. Trace validation: every distinct (previous token, separator, token) triple the real TokenPrinter produced while printing the enumerated
     expressions / statements / literal modules / shapes / corpus files (recorded by an outside wrapper) is judged by Trace_Tokens.tla.
"""
from ..common import MachineryError, sha, available_versions
from .. import tlc, local, tokentrace, inputs


def token_section(args, rep, sources):
    """sources: list of program texts (str) to print under the recorder"""
    r = tlc.check_model('Tokens', 'MC_Tokens.cfg', workers=4)
    rep.add_model('Tokens/MC_Tokens.cfg', r)
    if r.violated:
        raise MachineryError('Tokens.tla: the spacing rule as transcribed does not satisfy S (%s)' % r.violated)
    pairs, _ = tlc.cached_export('Tokens', 'Export_Tokens.cfg')

    def real(t):
        return u'é' if t.startswith('U+') else t
    # a number followed by a keyword is judged by the parser itself (same tree with and without the blank), every other pair by the tokenizer
    texts = []
    for p in pairs:
        item = [real(p['a']), real(p['b'])]
        if p['ak'] == 'number' and p['bk'] == 'keyword' and p['b'] in tokentrace.NUMBER_KEYWORD_CONTEXT:
            item.append(tokentrace.NUMBER_KEYWORD_CONTEXT[p['b']])
        texts.append(item)
    stricter = {}
    joins_somewhere = set()
    exact = 0
    versions = [x for x in ('3.13', '3.12', '3.8', '3.6', '2.7') if x in available_versions()]
    for v in versions:
        apart = tokentrace.lex_under(v, texts)
        for k, (p, la) in enumerate(zip(pairs, apart)):
            if la is None:
                continue
            if not p['joins'] and not la:
                raise MachineryError('TokensS.tla is not sound for CPython %s: %r + %r joins but S says it does not' % (v, p['a'], p['b']))
            if not la:
                joins_somewhere.add(k)
            if p['joins'] and la:
                stricter[v] = stricter.get(v, 0) + 1
    # exactness where it matters (number + keyword): S may say "joins" only if some supported interpreter really reads the text differently
    for k, (p, item) in enumerate(zip(pairs, texts)):
        if len(item) == 3:
            exact += 1
            if p['joins'] and k not in joins_somewhere:
                raise MachineryError('TokensS.tla is stricter than every interpreter for %r + %r (a printer writing them together would be rejected wrongly)' % (p['a'], p['b']))
    # 3. observed adjacencies
    n = 16
    opts = [{}, local.ALL_OFF]
    jobs = [{'id': 'tok%d' % k, 'srcs': sources[k::n], 'opts': opts} for k in range(n) if sources[k::n]]
    obs = local.pmap(tokentrace.trace_job, jobs, chunksize=1)
    agg = {}
    printed = events = 0
    for o in obs:
        printed += o['printed']
        events += o['events']
        for p in o['pairs']:
            key = (p['a']['kind'], p['a']['text'], p['sep'], p['b']['kind'], p['b']['text'])
            if key in agg:
                agg[key]['count'] += p['count']
            else:
                agg[key] = p
    recs = []
    for k, (key, p) in enumerate(sorted(agg.items(), key=lambda kv: repr(kv[0]))):
        recs.append({'id': 'adj%d' % k, 'a': p['a'], 'b': p['b'], 'sep': p['sep'], 'count': p['count']})
    rep.evaluations += printed
    verdicts, judged = tlc.judge('Trace_Tokens', 'Trace_Tokens.cfg', recs, tag='C02tok')
    rep.add_judged(judged)
    by = {x['id']: x for x in recs}
    for rid, v in sorted(verdicts.items()):
        x = by[rid]
        rep.violation(key='tokens:%s|%r|%s' % (x['a']['text'], x['sep'], x['b']['text']), clause=v[0],
                      what='the printer wrote %r directly before %r (%d times): the two join into other tokens' % (x['a']['text'], x['b']['text'], x['count']),
                      replay={'kind': 'token-adjacency', 'a': x['a'], 'b': x['b'], 'sep': x['sep']})
    kinds = sorted(set('%s%s%s' % (x['a']['kind'], '+' if x['sep'] == '' else '_', x['b']['kind']) for x in recs))
    for x in recs:
        rep.nontrivial.add(sha('adj' + repr((x['a']['text'], x['sep'], x['b']['text']))))
    rep.extra.update({'token_bank_pairs': len(pairs), 'token_bank_pairs_where_S_is_stricter_than_the_tokenizer': stricter, 'number_keyword_pairs_checked_exactly_by_the_parser': exact, 'interpreters_for_S': versions,
                      'token_events_recorded': events, 'distinct_token_adjacencies_judged': len(recs), 'token_kind_adjacencies_seen': kinds})
    if recs:
        rep.sample({'token_adjacency': {'a': recs[0]['a']['text'], 'sep': recs[0]['sep'], 'b': recs[0]['b']['text'], 'count': recs[0]['count']}})
    return len(recs)
