"""C11 - output depends only on source, options and interpreter version; arguments are left unchanged.

Decided by Api.tla (call histories over shared caller-owned lists, threads interleaving at stage grain; TLC checks
ArgsUntouched and ResultIsFresh for 1 thread x 3 calls and 2 threads x 1 call [thorough: 2 x 2]) and Trace_Api.tla judging
  * replays of the histories TLC generated (plan x schedule) in the real code: the shared list objects the plan
    prescribes, threads forced through the schedule at the seam boundaries, every result compared with the result of
    the same call in a process of its own, argument objects compared with deep copies;
  * long single-process histories over real modules vs fresh processes, PYTHONHASHSEED sweeps, free-running threads.
"""
import base64
import random
import threading

from ..common import main_wrapper, sha, MachineryError, available_versions
from .. import tlc, local, pool, corpus, inputs, api_replay

PID = 'C11'


def stress_job(job):
    """free-running threads all minifying the same few sources; every result must equal the single-threaded one"""
    import sys
    import python_minifier
    srcs = job['srcs']
    expect = [python_minifier.minify(s, rename_globals=True) for s in srcs]
    old = sys.getswitchinterval()
    sys.setswitchinterval(1e-6)
    bad = []

    def work(tix):
        for rnd in range(job['rounds']):
            for k, s in enumerate(srcs):
                try:
                    out = python_minifier.minify(s, rename_globals=True)
                except BaseException as e:  # noqa
                    out = 'RAISED:' + type(e).__name__
                if out != expect[k]:
                    bad.append((tix, rnd, k))
    ths = [threading.Thread(target=work, args=(i,)) for i in range(job['threads'])]
    for t in ths:
        t.start()
    for t in ths:
        t.join()
    sys.setswitchinterval(old)
    return {'id': job['id'], 'kind': 'threads', 'equal': not bad, 'n': job['threads'] * job['rounds'] * len(srcs)}


def option_objects_job(job):
    """argument objects other than lists: a RemoveAnnotationsOptions instance and the source itself are left unchanged,
    and re-using the instance (or the module-level default) between calls does not change results"""
    import copy
    import python_minifier
    from python_minifier.transforms.remove_annotations_options import RemoveAnnotationsOptions
    src = job['src']
    o = RemoveAnnotationsOptions(remove_variable_annotations=True, remove_return_annotations=False,
                                 remove_argument_annotations=True, remove_class_attribute_annotations=True)
    before = repr(o)
    r1 = python_minifier.minify(src, remove_annotations=o)
    r2 = python_minifier.minify(job['other'], remove_annotations=o)
    r3 = python_minifier.minify(src, remove_annotations=o)
    d1 = python_minifier.minify(src)
    python_minifier.minify(job['other'], remove_annotations=True)
    d2 = python_minifier.minify(src)
    tup = ('x',)
    lst = ['x']
    t1 = python_minifier.minify(src, preserve_locals=lst, preserve_globals=lst, rename_globals=True)
    ok = (repr(o) == before and r1 == r3 and d1 == d2 and lst == ['x'])
    return {'id': job['id'], 'kind': 'args', 'equal': bool(ok)}


def run(args, rep):
    rng = random.Random(args.seed)
    # (1) M |= S
    for cfg in (['MC_Api_1x3.cfg', 'MC_Api_2x1.cfg'] if args.tier == 'quick' else ['MC_Api_1x3.cfg', 'MC_Api_2x1.cfg', 'MC_Api_2x2.cfg']):
        r = tlc.check_model('Api', cfg, coverage=(cfg != 'MC_Api_2x2.cfg'), timeout=7200)
        rep.add_model('Api/' + cfg, r)
        if r.violated:
            raise MachineryError('Api.tla (Fixed=TRUE): M does not satisfy S (%s)' % r.violated)
    # (2) replay TLC-generated histories
    h21, _ = tlc.export('Api', 'Export_Api_2x1.cfg')
    h12, _ = tlc.export('Api', 'Export_Api_1x2.cfg')
    total = len(h21) + len(h12)
    rng.shuffle(h21)
    hist = h12 + h21[:4000 if args.tier == 'quick' else 60000]
    if args.tier != 'quick':
        h13, _ = tlc.export('Api', 'Export_Api_1x3.cfg')
        total += len(h13)
        hist += h13
    keys = sorted(set(api_replay.fresh_key(c) for h in hist for th in h['plan'] for c in th))
    fresh = api_replay.fresh_results(keys)
    errs = [k for k, v in fresh.items() if str(v).startswith('ERROR:')]
    if errs:
        raise MachineryError('fresh-process reference failed for %s: %s' % (errs[0], fresh[errs[0]]))
    jobs = [{'id': 'h%d' % k, 'plan': h['plan'], 'sched': h['sched'], 'fresh': fresh} for k, h in enumerate(hist)]
    obs = local.pmap(api_replay.replay_history, jobs, chunksize=16)
    records = []
    for o in obs:
        o['kind'] = 'replay'
        records.append({k: o[k] for k in ('id', 'kind', 'calls', 'heap_same', 'schedule_followed')})
        rep.evaluations += len(o['calls'])
    for h in hist:
        if any(c['pl'] in ('L1', 'L2') or c['pg'] in ('L1', 'L2') for th in h['plan'] for c in th):
            rep.nontrivial.add(sha(repr(h['plan'])))
    jb = {j['id']: j for j in jobs}
    rep.sample({'plan': jobs[len(h12) + 1]['plan'], 'schedule': jobs[len(h12) + 1]['sched'],
                'observed': [{k: c[k] for k in ('t', 'k', 'args_same', 'result_is_fresh')} for c in obs[len(h12) + 1]['calls']]})

    # (3) single-process histories vs fresh processes; hash seeds
    files, skipped = corpus.stdlib('3.12', 40 if args.tier == 'quick' else 150)
    srcs = [(p, b) for p, b in files] + [(p, b) for p, b in corpus.repo_sources()][:30]
    # modules that share sub-structure (the same literals in nested and plain f-strings, the same names in different roles): anything the
    # minifier memoises per process would carry over between them
    family = []
    for lit in ('k', 'key_name', "it's"):
        q = repr(lit)
        family += [('shared:nested2:%s' % lit, 'row = {%s: 1}\nx = f"""{f\'{row[%s]}\'}"""\n' % (q, q.replace("'", '"') if "'" not in lit else q)),
                   ('shared:plain:%s' % lit, 'table = {%s: 2}\ny = f"{table[%s]}"\n' % (q, q.replace('"', "'") if '"' not in lit and "'" not in lit else q)),
                   ('shared:spec:%s' % lit, 'a = {%s: 3}\nw = 4\nz = f\'{a[%s]!r:>{w}}\'\n' % (q, q.replace("'", '"') if "'" not in lit else q)),
                   ('shared:str:%s' % lit, 'v = [%s, %s, %s, %s]\ndef f(p=%s):\n    return p + %s\n' % (q, q, q, q, q, q))]
    family += [('shared:names:1', 'def alpha(value):\n    total = value + 1\n    return total\nprint(alpha(1))\n'),
               ('shared:names:2', 'total = 5\ndef alpha(total_value):\n    value = total_value * total\n    return value\nprint(alpha(2))\n'),
               ('shared:nums', 'x = 1 + 1.0\ny = [1, 1.0, True, 0, 0.0, False]\nz = 60 * 60\n'),
               ('shared:nums2', 'x = 1.0 + 1\ny = [True, 1.0, 1]\nz = 60 * 60 * 1.0\n')]
    # one module per element of the alphabets the transforms decide on - process-wide tables (name lists, caches, iterators) that are used up or
    # filled by one call would show on the next: every builtin exception raised with and without arguments, every Suite.tla statement symbol
    import builtins as _b
    from .. import suitegen
    excs = sorted(n for n in dir(_b) if isinstance(getattr(_b, n), type) and issubclass(getattr(_b, n), BaseException))
    for e in excs:
        family.append(('shared:raise:%s' % e, 'def f(x):\n    if x:\n        raise %s()\n    raise %s(x)\n' % (e, e)))
    for sym, text in sorted(suitegen.STMT.items()):
        if sym[0] in ('retnone', 'retbare', 'retval', 'nl_zq'):
            text = 'def f():\n' + '\n'.join('    ' + l for l in text.split('\n'))
        family.append(('shared:stmt:%s' % '.'.join(sym), 'xflag = zq = 1\n%s\nprint(len(dir()))\n' % text))
    # the enumerated two-name scope programs in which one statement declares both names (`global xx, yy`): bindings created together, equal mention counts -
    # whatever orders them (creation order, a set, a dict) decides which gets the shorter name
    from .. import scopegen
    p22, _ = tlc.cached_export('Rename', 'Export_Rename_2x2.cfg')
    both = [p for p in p22 if any('gdecl' in u.get('x', []) and 'gdecl' in u.get('y', []) for u in p['uses'])]
    scope_family = []
    for k, p in enumerate(both if args.tier != 'quick' else both[::4]):
        try:
            src = scopegen.Conc(p, variant=0).src
            compile(src, 's', 'exec')
        except SyntaxError:
            continue
        scope_family.append(('scope:%d' % k, src))
    # every syntactic LIST OF NAMES with several names of equal weight (same number of mentions): if anything but the written order decides which binding is
    # processed first, the assignment of short names follows the hash seed
    for k in (2, 4, 6):
        names = ['alpha', 'bravo', 'gamma', 'delta', 'eagle', 'fruit'][:k]
        L = ', '.join(names)
        total = ' + '.join(names)
        assigns = '\n'.join('    %s = %d' % (n, i) for i, n in enumerate(names))
        lists = {
            'global': 'def setup():\n    global %s\n%s\ndef total():\n    return %s\n' % (L, assigns, total),
            'global-read': 'def total():\n    global %s\n    return %s\n%s\n' % (L, total, assigns.replace('    ', '')),
            'nonlocal': 'def outer():\n%s\n    def inner():\n        nonlocal %s\n%s\n    inner()\n    return %s\n' % (assigns, L, assigns.replace('    ', '        '), total),
            'tuple-target': '%s = range(%d)\nprint(%s)\n' % (L, k, total),
            'params': 'def f(%s):\n    return %s\nprint(f(%s))\n' % (L, total, ', '.join('1' * k)),
            'kwonly': 'def f(*, %s):\n    return %s\n' % (L, total),
            'lambda': 'f = lambda %s: %s\n' % (L, total),
            'for-target': 'def f(rows):\n    for %s in rows:\n        yield %s\n' % (L, total),
            'with-as': 'def f(c):\n    with %s:\n        return %s\n' % (', '.join('c as %s' % n for n in names), total),
            'del': 'def f():\n%s\n    print(%s)\n    del %s\n' % (assigns, total, L),
            'import': 'def f():\n    import %s\n    return %s\n' % (L, total),
            'from-import': 'def f():\n    from m import %s\n    return %s\n' % (L, total),
            'set-display': '%s\nprint({%s})\n' % (assigns.replace('    ', ''), L),
            'class-bases': '%s\nclass K(%s): pass\n' % ('\n'.join('class %s: pass' % n for n in names), L),
            'except-tuple': '%s\ntry:\n    pass\nexcept (%s):\n    pass\n' % ('\n'.join('class %s(Exception): pass' % n for n in names), L),
            'comprehension': 'print([%s for %s in [range(%d)]])\n' % (total, L, k),
            'match-seq': 'def f(s):\n    match s:\n        case [%s]:\n            return %s\n' % (L, total),
            'walrus': 'def f():\n    return [%s], %s\n' % (', '.join('(%s := %d)' % (n, i) for i, n in enumerate(names)), total),
        }
        for kind, text in sorted(lists.items()):
            try:
                compile(text, 's', 'exec')
            except SyntaxError:
                continue
            scope_family.append(('scope:names-%s-%d' % (kind, k), text))
    versions = ['3.12', '3.11', '2.7'] if args.tier == 'quick' else [v for v in ('3.12', '3.11', '3.13', '3.8', '3.6', '2.7') if v in available_versions()]
    versions = [v for v in versions if v in available_versions()]
    for v in versions:
        if v != '3.12':
            f2, _ = corpus.stdlib(v, 30 if args.tier == 'quick' else 60)
            base = [(p, b) for p, b in f2]
        else:
            base = srcs
        base = base + inputs.shapes(v) + ([(n, t.encode()) for n, t in family + scope_family] if v != '2.7' else [])
        rq = [{'op': 'minify', 'id': p, 'src_b64': inputs.b64(b), 'as_bytes': True, 'opts': {'rename_globals': True}} for p, b in base]
        # two long histories in one process each - every request in one order and in the reverse order, so that for every ordered pair (A, B)
        # one of them runs A some time before B ...
        hist_fwd = pool.run_requests(v, rq, procs=1, timeout=300, hashseed='0')
        hist_rev = pool.run_requests(v, list(reversed(rq)), procs=1, timeout=300, hashseed='0')
        # ... against short-lived processes: shuffled assignment, one request per process for the shared-structure family, different hash seeds
        seeds = ['0', '1', '12345', '4294967295'] if args.tier == 'quick' else [str(x) for x in [0, 1, 2, 3, 7, 42, 1000, 12345, 99999, 2 ** 31, 4294967295] + [rng.randrange(2 ** 32) for _ in range(21)]]
        ref = None
        for s in seeds:
            rq2 = list(rq)
            random.Random(int(s)).shuffle(rq2)
            res = pool.run_requests(v, rq2, procs=16, timeout=300, hashseed=s)
            if ref is None:
                ref = res
                # truly fresh: one process per request for the family and the shape bank
                small = [q for q in rq if q['id'].startswith(('shared:', 'shape:'))]
                from concurrent.futures import ThreadPoolExecutor
                with ThreadPoolExecutor(max_workers=12) as ex:
                    fresh_list = list(ex.map(lambda q: pool.run_requests(v, [q], procs=1, timeout=120, hashseed='0').get(q['id'], {}), small))
                for q, a in zip(small, fresh_list):
                    ref[q['id']] = a
                for q in rq:
                    b = ref.get(q['id'], {})
                    for hname, hist_res in (('fwd', hist_fwd), ('rev', hist_rev)):
                        a = hist_res.get(q['id'], {})
                        if 'worker_error' in a or 'worker_error' in b or not a or not b:
                            continue
                        records.append({'id': 'history-%s|%s|%s' % (hname, v, q['id']), 'kind': 'history',
                                        'equal': a.get('out_b64') == b.get('out_b64') and a.get('outcome') == b.get('outcome')})
                        rep.evaluations += 1
            else:
                for q in rq:
                    a, b = ref.get(q['id'], {}), res.get(q['id'], {})
                    if 'worker_error' in a or 'worker_error' in b or not a or not b:
                        continue
                    records.append({'id': 'seed%s|%s|%s' % (s, v, q['id']), 'kind': 'seed',
                                    'equal': a.get('out_b64') == b.get('out_b64') and a.get('outcome') == b.get('outcome')})
                    rep.evaluations += 1
                    rep.nontrivial.add(sha(q['id']))
    # (4) free-running threads, and non-list argument objects
    texts = [b.decode('utf-8') for p, b in srcs if len(b) < 6000][:6]
    sj = [{'id': 'stress%d' % k, 'srcs': texts, 'threads': 8 if args.tier == 'quick' else 16, 'rounds': 2 if args.tier == 'quick' else 8}
          for k in range(4 if args.tier == 'quick' else 16)]
    for o in local.pmap(stress_job, sj, chunksize=1):
        rep.evaluations += o.pop('n')
        records.append(o)
    ann_src = "x: int = 1\nclass A:\n    y: int = 2\n    def f(self, a: int) -> int:\n        z: int = a\n        return z\n"
    for o in local.pmap(option_objects_job, [{'id': 'args%d' % k, 'src': ann_src, 'other': texts[k % len(texts)]} for k in range(4)], chunksize=1):
        records.append(o)
        rep.evaluations += 6

    verdicts, judged = tlc.judge('Trace_Api', 'Trace_Api.cfg', records, tag='C11')
    rep.add_judged(judged)
    for rid, v in sorted(verdicts.items()):
        if v[0].startswith('machinery:'):
            raise MachineryError('%s on %s' % (v[0], rid))
        if rid in jb:
            j = jb[rid]
            shape = '|'.join('%s:%s:%s' % (c['src'], c['pl'], c['pg']) for th in j['plan'] for c in th)
            rep.violation(key='replay:%s|%s' % (shape, v[0]), clause=v[0], what='plan=%s schedule=%s' % (j['plan'], j['sched']),
                          replay={'kind': 'api-history', 'check': 'C11', 'plan': j['plan'], 'sched': j['sched']})
        else:
            rep.violation(key=rid, clause=v[0], what=rid, replay={'kind': 'api-observation', 'id': rid})
    rep.exhaustive = False
    rep.rule = ('histories = (plan, schedule) pairs exported by TLC from Api.tla: every 1-thread x 2-call plan, a seeded sample of the 145 152 '
                '2-thread x 1-call plan x interleaving pairs [thorough: 60 000 of them and every 1 x 3 plan]; plus one long single-process history, '
                'hash-seed sweeps, and free-running threads over pinned real modules; non-trivial = distinct plans that share a caller-owned list, '
                'and distinct modules compared across seeds')
    rep.extra.update({'histories_enumerated_by_tlc': total, 'histories_replayed': len(hist), 'corpus_skipped': skipped,
                      'checker_cmd': 'tlc Api.tla (MC_Api_*.cfg); tlc Trace_Api.tla over ndjson observations'})
    rep.assumptions += ['forced interleavings are at the grain of the outside seams (stage boundaries); finer ones only by free-running stress',
                        'the fresh-process reference runs the same /repo tree, one call per process']


def replay(rp):
    keys = sorted(set(api_replay.fresh_key(c) for th in rp['plan'] for c in th))
    fresh = api_replay.fresh_results(keys)
    o = api_replay.replay_history({'id': 'replay', 'plan': rp['plan'], 'sched': rp['sched'], 'fresh': fresh})
    print('observed now:', o)


if __name__ == '__main__':
    main_wrapper(PID, run)
