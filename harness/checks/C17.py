"""C17 - turning a size optimisation on never makes the output longer.

Decided by CostS.tla / Cost.tla (the cost model of should_rename, M, against the true change of the printed size, S, for every decision in
bounds: exact at module level / one-line bodies, under-estimating by the indentation otherwise) and Trace_Size.tla judging
  * every rename / hoist decision the real code takes on the corpus, logged with its inputs through an outside wrapper of should_rename,
  * for pinned real modules and each of the 11 size options: len(minify(S, base + o)) <= len(minify(S, base)) for base in {all off, defaults minus o}.
"""
import random
import re
import warnings

from ..common import main_wrapper, sha, MachineryError
from .. import tlc, local, corpus, inputs
from ..local import ALL_OFF, kwargs_of

PID = 'C17'

SIZE_OPTS = ['combine_imports', 'remove_pass', 'remove_annotations', 'remove_object_base', 'remove_builtin_exception_brackets', 'remove_explicit_return_none',
             'convert_posargs_to_args', 'hoist_literals', 'rename_locals', 'rename_globals', 'constant_folding']

_patched = False
_log = []


def _patch():
    """wrap should_rename of the binding classes from outside (no source change)"""
    global _patched
    if _patched:
        return
    from python_minifier.rename.binding import NameBinding, BuiltinBinding
    from python_minifier.rename.rename_literals import HoistedBinding

    def wrap(cls, kind):
        orig = cls.should_rename

        def should_rename(self, new_name):
            res = orig(self, new_name)
            try:
                if kind == 'hoisted':
                    L = len(repr(self.value))
                else:
                    L = len(self._name)
                _log.append({'kind': 'builtin' if isinstance(self, BuiltinBinding) else kind, 'L': L, 'C': len(new_name), 'refs': len(self.references),
                             'old_mentions': self.old_mention_count(), 'new_mentions': self.new_mention_count(), 'additional': self.additional_byte_cost(),
                             'decided': bool(res)})
            except Exception:
                pass
            return res
        cls.should_rename = should_rename
    wrap(NameBinding, 'name')
    wrap(HoistedBinding, 'hoisted')
    _patched = True


def size_job(job):
    import python_minifier
    _patch()
    src = job['src']
    out = []
    for o in SIZE_OPTS:
        for bname in ('off', 'default'):
            base = dict(ALL_OFF, preserve_shebang=True) if bname == 'off' else {}
            b0 = dict(base)
            b1 = dict(base)
            b0[o] = False
            b1[o] = True
            del _log[:]
            try:
                off = python_minifier.minify(src, **kwargs_of(b0))
                on = python_minifier.minify(src, **kwargs_of(b1))
            except BaseException as e:  # noqa
                continue
            out.append({'id': '%s|%s|%s' % (job['id'], o, bname), 'what': 'size', 'option': o, 'len_on': len(on.encode('utf-8')), 'len_off': len(off.encode('utf-8')),
                        'slack': indent_slack(on) if len(on) > len(off) and o in ('rename_locals', 'rename_globals', 'hoist_literals') else 0,
                        'adjacent': adjacent_literals(off) if len(on) > len(off) and o == 'hoist_literals' else 0,
                        'debug_spec': bool(o in ('constant_folding', 'hoist_literals', 'rename_locals', 'rename_globals') and len(on) > len(off) and re.search(r'\{[^{}]*=(![rsa])?(:[^{}]*)?\}', off)),
                        'kind': '', 'L': 0, 'C': 0, 'refs': 0, 'old_mentions': 0, 'new_mentions': 0, 'additional': 0, 'decided': False})
    # decisions logged during the last default-options run
    del _log[:]
    try:
        python_minifier.minify(src, rename_globals=True)
    except BaseException:  # noqa
        pass
    dec = []
    for k, d in enumerate(_log[:400]):
        r = dict(d)
        r.update({'id': '%s|decision%d' % (job['id'], k), 'what': 'decision', 'option': '', 'len_on': 0, 'len_off': 0, 'slack': 0})
        dec.append(r)
    return out + dec


def adjacent_literals(src):
    """number of places where a string / bytes / number literal touches a name or keyword without a space (`'abc'for`, `in'abc'`): a name that
    replaces the literal there needs a separating space the literal did not need"""
    import io
    import tokenize
    n = 0
    try:
        toks = [t for t in tokenize.generate_tokens(io.StringIO(src).readline)]
    except Exception:
        return 0
    for a, b in zip(toks, toks[1:]):
        if a.end == b.start and {a.type, b.type} == {tokenize.NAME, tokenize.STRING}:
            n += 1
        elif a.end == b.start and a.type == tokenize.NUMBER and b.type == tokenize.NAME:
            n += 1
    return n


def indent_slack(out_src):
    """characters by which the cost model under-estimates the inserted assignments of this output: an assignment inserted at the head of
    a function body that is printed as an indented block is followed by a newline and the block's indentation, not by one character"""
    import ast
    try:
        t = ast.parse(out_src)
    except SyntaxError:
        return 0
    slack = 0

    def visit(node, depth):
        nonlocal slack
        for ch in ast.iter_child_nodes(node):
            if isinstance(ch, (ast.FunctionDef, ast.AsyncFunctionDef)):
                compound = any(isinstance(st, (ast.If, ast.For, ast.While, ast.Try, ast.With, ast.FunctionDef, ast.ClassDef, ast.AsyncFunctionDef, ast.AsyncFor,
                                               ast.AsyncWith, ast.Match)) for st in ch.body)
                if compound:
                    for st in ch.body:
                        if isinstance(st, ast.Expr) and isinstance(st.value, ast.Constant) and isinstance(st.value.value, str):
                            continue
                        if isinstance(st, ast.Assign) and len(st.targets) == 1 and isinstance(st.targets[0], ast.Name) and isinstance(st.value, (ast.Name, ast.Constant)):
                            slack += depth + 1
                            continue
                        break
                visit(ch, depth + 1)
            elif isinstance(ch, (ast.ClassDef, ast.If, ast.For, ast.While, ast.Try, ast.With)):
                visit(ch, depth + 1)
            else:
                visit(ch, depth)
    visit(t, 0)
    return slack


# the syntactic position a repeated literal occupies: every statement / expression form whose child can be a constant and that some
# transform rebuilds or moves (annotation removal turns AnnAssign into Assign, return None is rewritten, imports are merged, ...)
SITES = {
    'list': lambda ls: ['values = [%s]' % ', '.join(ls)],
    'annassign': lambda ls: ['name_%d: object = %s' % (i, l) for i, l in enumerate(ls)],
    'annattr': lambda ls: ['holder.attribute_%d: object = %s' % (i, l) for i, l in enumerate(ls)],
    'assign': lambda ls: ['name_%d = %s' % (i, l) for i, l in enumerate(ls)],
    'augassign': lambda ls: ['holder += %s' % l for l in ls],
    'default': lambda ls: ['def inner_function(%s): return argument_0' % ', '.join('argument_%d=%s' % (i, l) for i, l in enumerate(ls))],
    'kwonly_default': lambda ls: ['def inner_function(*, %s): return argument_0' % ', '.join('argument_%d=%s' % (i, l) for i, l in enumerate(ls))],
    'lambda_default': lambda ls: ['inner = lambda %s: argument_0' % ', '.join('argument_%d=%s' % (i, l) for i, l in enumerate(ls))],
    'keyword': lambda ls: ['holder(%s)' % ', '.join('key_%d=%s' % (i, l) for i, l in enumerate(ls))],
    'callarg': lambda ls: ['holder(%s)' % ', '.join(ls)],
    'return': lambda ls: ['def inner_%d(): return %s' % (i, l) for i, l in enumerate(ls)],
    'yield': lambda ls: ['def inner_generator():\n' + '\n'.join('    yield %s' % l for l in ls)],
    'compare': lambda ls: ['holder = [%s]' % ', '.join('holder == %s' % l for l in ls)],
    'is': lambda ls: ['holder = [%s]' % ', '.join('holder is %s' % l for l in ls)],
    'subscript': lambda ls: ['holder = [%s]' % ', '.join('holder[%s]' % l for l in ls)],
    'dictvalue': lambda ls: ['holder = {%s}' % ', '.join('%d: %s' % (i, l) for i, l in enumerate(ls))],
    'dictkey': lambda ls: ['holder = {%s}' % ', '.join('%s: %d' % (l, i) for i, l in enumerate(ls))],
    'ifexp': lambda ls: ['holder = [%s]' % ', '.join('%s if holder else %s' % (l, l) for l in ls[::2])],
    'fstring': lambda ls: ['holder = f"%s"' % ''.join('{%s}' % l for l in ls)],
    'assert': lambda ls: ['assert holder, %s' % l for l in ls],
    'raise': lambda ls: ['def inner_%d(): raise ValueError(%s)' % (i, l) for i, l in enumerate(ls)],
    'withitem': lambda ls: ['with holder(%s): pass' % l for l in ls],
    'decorator': lambda ls: ['@holder(%s)\ndef inner_%d(): pass' % (l, i) for i, l in enumerate(ls)],
    'classkw': lambda ls: ['class Inner_%d(holder, metaclass=holder, option=%s): pass' % (i, l) for i, l in enumerate(ls)],
    'comprehension': lambda ls: ['holder = [%s for item in holder if item != %s]' % (ls[0], ls[0])] * max(1, len(ls) // 2),
    'slice': lambda ls: ['holder = [%s]' % ', '.join('holder[%s:%s]' % (l, l) for l in ls[::2])],
    'matchvalue': lambda ls: ['match holder:\n' + '\n'.join('    case [%s, item_%d]: pass' % (l, i) for i, l in enumerate(ls))],
}


def site_programs():
    """one literal at k sites of one syntactic kind, at module level / in a function / in a method"""
    out = []
    lits = ["'abcdef'", "'a much longer literal value'", "b'abcdef'", 'None', 'True', '123456']
    for site, mk in sorted(SITES.items()):
        for lit in lits:
            if site in ('matchvalue',) and lit in ('None', 'True'):
                pass        # still valid patterns (singletons)
            for k in (3, 8):
                body = '\n'.join(mk([lit] * k))
                ind = lambda t, n: '\n'.join('    ' * n + x for x in t.split('\n'))   # noqa: E731
                progs = {'module': 'holder = print\n%s\n' % body,
                         'function': 'def function_name(holder):\n%s\n    return holder\n' % ind(body, 1),
                         'method': 'class ClassName:\n    def method_name(self, holder):\n%s\n        return holder\n' % ind(body, 2)}
                for place, src in sorted(progs.items()):
                    try:
                        with warnings.catch_warnings():
                            warnings.simplefilter('ignore')
                            compile(src, 's', 'exec')
                    except SyntaxError:
                        continue
                    out.append(('site:%s:%s:%s:%d' % (site, place, lit, k), src.encode()))
    return out


def fold_site_programs():
    """foldable expressions at a few sites, among them the self-documenting f-string form f'{expr=}' (whose text is the expression)"""
    out = []
    for e in ('1+1', '60*60', '2**8', 'True&True', '10-20', '1024*1024*8', '7//2', '3*0.5'):
        sites = {'assign': 'x=%s\n' % e, 'call': 'print(%s, %s)\n' % (e, e), 'default': 'def f(a=%s):\n    return a\n' % e, 'fstring': 'x=f"{%s}"\n' % e,
                 'fstring-debug': 'x=f"{%s=}"\n' % e, 'fstring-debug-conv': 'x=f"{%s=!r:>8}"\n' % e, 'fstring-debug-two': 'x=f"{%s=} {%s=}"\n' % (e, e),
                 'subscript': 'x=y[%s]\n' % e, 'compare': 'x=y<%s\n' % e}
        for site, src in sorted(sites.items()):
            out.append(('foldsite:%s:%s' % (site, e), src.encode()))
    return out


def library_programs():
    """small library modules: every function is listed in __all__ (so renaming globals has little to gain), module-level imports / from-imports / builtins
    are used r times each, and - the dimension - unrelated functions do or do not reuse those names for their own parameters and locals"""
    out = []
    things = [('import', 'time', 'time.time()'), ('import', 'json', 'json.dumps(1)'), ('from', 'path', 'path.join("a", "b")'), ('from', 'sep', 'sep * 2'),
              ('builtin', 'type', 'type(1)'), ('builtin', 'isinstance', 'isinstance(1, int)'), ('builtin', 'len', 'len("ab")')]
    for reuse in ('none', 'param', 'local', 'lambda', 'classattr'):
        for r in (1, 2, 3):
            for sel in ([0, 2, 4], [1, 3, 5], [0, 1], [4, 5, 6], [2, 3], list(range(7))):
                chosen = [things[i] for i in sel]
                lines = []
                for kind, name, _use in chosen:
                    if kind == 'import':
                        lines.append('import %s' % name)
                    elif kind == 'from':
                        lines.append('from os import %s' % name)
                funcs = []
                for k, (kind, name, use) in enumerate(chosen):
                    fn = 'use_%s' % name
                    funcs.append(fn)
                    lines.append('def %s():\n    return [%s]' % (fn, ', '.join([use] * r)))
                    other = 'other_%s' % name
                    funcs.append(other)
                    if reuse == 'param':
                        lines.append('def %s(%s, payload):\n    return payload, %s' % (other, name, name))
                    elif reuse == 'local':
                        lines.append('def %s(payload):\n    %s = payload\n    return %s, %s' % (other, name, name, name))
                    elif reuse == 'lambda':
                        lines.append('%s = lambda %s, payload: (payload, %s)' % (other, name, name))
                    elif reuse == 'classattr':
                        lines.append('class %s:\n    %s = 1\n    def method(self, value):\n        return value' % (other, name))
                    else:
                        lines.append('def %s(value, payload):\n    return payload, value' % other)
                lines.insert(len([l for l in lines if l.startswith(('import', 'from'))]), '__all__ = [%s]' % ', '.join(repr(f) for f in funcs))
                out.append(('library:%s:%d:%s' % (reuse, r, ''.join(map(str, sel))), ('\n'.join(lines) + '\n').encode()))
    return out


def synthetic():
    """small modules in which one literal is repeated k times - at module level, in a function, in a nested block - for every literal kind
    the hoister could consider; they make the size options' cost decisions observable one at a time"""
    out = []
    lits = ['1.0', '0.0', '1', '0', 'True', 'False', 'None', "'ab'", "'abcdef'", "b'ab'", '1.5', '2e10', '0j', "''", '...', "'a much longer literal value'"]
    for lit in lits:
        for k in (2, 3, 5, 8, 12, 20):
            uses = ', '.join([lit] * k)
            out.append(('synthetic:module:%s:%d' % (lit, k), ('values = [%s]\nprint(values)\n' % uses).encode()))
            out.append(('synthetic:function:%s:%d' % (lit, k), ('def function_name(argument):\n    values = [%s]\n    return values, argument\nprint(function_name(1))\n' % uses).encode()))
            out.append(('synthetic:nested:%s:%d' % (lit, k), ('def function_name(argument):\n    if argument:\n        for item in argument:\n            values = [%s]\n    return argument\n' % uses).encode()))
    out += site_programs()
    out += library_programs()
    out += fold_site_programs()
    for name in ('argument_name', 'a', 'ab'):
        for k in (1, 2, 4, 8):
            body = ' + '.join([name] * k)
            out.append(('synthetic:param:%s:%d' % (name, k), ('def function_name(%s, other=1):\n    if other:\n        return %s\n    return other\n' % (name, body)).encode()))
            out.append(('synthetic:import:%s:%d' % (name, k), ('import collections\ndef function_name():\n    import os.path, json\n    return %s\n' % ' + '.join(['json.dumps(1)'] * k)).encode()))
    return out


def remote_sizes(args, rep, srcs):
    """the size pairs of the synthetic modules on the other interpreters that run the minifier (their trees differ: parameters are Name nodes
    with a Param context on 2.7, strings are Str nodes before 3.8 ...): same records, same judge; decisions are not logged there"""
    import base64
    from .. import pool
    from ..common import available_versions
    versions = available_versions(['2.7', '3.8']) if args.tier == 'quick' else [v for v in available_versions() if v != '3.12']
    records = []
    for v in versions:
        reqs = []
        for name, b in srcs:
            for o in SIZE_OPTS:
                for bname in ('off', 'default'):
                    base = dict(ALL_OFF, preserve_shebang=True) if bname == 'off' else {}
                    for flag in (False, True):
                        reqs.append({'op': 'minify', 'id': '%s|%s|%s|%s|%d' % (name, o, bname, v, flag), 'src_b64': inputs.b64(b), 'as_bytes': False, 'opts': dict(base, **{o: flag})})
        res = pool.run_requests(v, reqs, timeout=120)
        for name, b in srcs:
            for o in SIZE_OPTS:
                for bname in ('off', 'default'):
                    a0 = res.get('%s|%s|%s|%s|0' % (name, o, bname, v), {})
                    a1 = res.get('%s|%s|%s|%s|1' % (name, o, bname, v), {})
                    if a0.get('outcome') != 'return' or a1.get('outcome') != 'return':
                        continue            # not a program of that interpreter (or a worker failure): nothing to compare
                    off, on = base64.b64decode(a0['out_b64']), base64.b64decode(a1['out_b64'])
                    grows = len(on) > len(off)
                    off_t, on_t = off.decode('utf-8', 'replace'), on.decode('utf-8', 'replace')
                    records.append({'id': '%s|%s|%s|%s' % (name, o, bname, v), 'what': 'size', 'option': o, 'len_on': len(on), 'len_off': len(off),
                                    'slack': indent_slack(on_t) if grows and o in ('rename_locals', 'rename_globals', 'hoist_literals') else 0,
                                    'adjacent': adjacent_literals(off_t) if grows and o == 'hoist_literals' else 0,
                                    'debug_spec': bool(o in ('constant_folding', 'hoist_literals', 'rename_locals', 'rename_globals') and grows and re.search(r'\{[^{}]*=(![rsa])?(:[^{}]*)?\}', off_t)),
                                    'kind': '', 'L': 0, 'C': 0, 'refs': 0, 'old_mentions': 0, 'new_mentions': 0, 'additional': 0, 'decided': False})
    rep.extra['remote_size_pairs'] = len(records)
    rep.extra['remote_versions'] = list(versions)
    return records


def run(args, rep):
    rng = random.Random(args.seed)
    for cfg in ('MC_Cost.cfg',):
        r = tlc.check_model('Cost', cfg, workers=4)
        rep.add_model('Cost/' + cfg, r)
        if r.violated:
            raise MachineryError('Cost.tla: the cost model as transcribed is not sound where it should be exact (%s)' % r.violated)
    files, skipped = corpus.stdlib('3.12', 100 if args.tier == 'quick' else 300)
    srcs = [('file:' + p, b) for p, b in files] + [('repo:' + p, b) for p, b in corpus.repo_sources()]
    srcs += synthetic()
    jobs = [{'id': name, 'src': b} for name, b in srcs]
    res = local.pmap(size_job, jobs, chunksize=2)
    records = [r for rs in res for r in rs]
    records += remote_sizes(args, rep, synthetic())
    rep.evaluations += len(records)
    shas = {name: sha(b)[:12] for name, b in srcs}
    verdicts, judged = tlc.judge('Trace_Size', 'Trace_Size.cfg', records, tag='C17')
    rep.add_judged(judged)
    byid = {r['id']: r for r in records}
    for r in records:
        if r['what'] == 'size' and r['len_on'] != r['len_off']:
            rep.nontrivial.add(sha(r['id']))
    for rid, v in sorted(verdicts.items()):
        if v[0].startswith('machinery:'):
            raise MachineryError(v[0])
        r = byid[rid]
        name = rid.split('|')[0]
        if r['what'] == 'size':
            key = 'size|%s|%s|%s|%s' % (name.split('/')[-1], shas[name], r['option'], '|'.join(rid.split('|')[2:]))
            if 0 < r['len_on'] - r['len_off'] <= r.get('slack', 0):
                key = 'D15:' + key       # the growth is within what the indentation of inserted assignments accounts for (known finding)
            elif r.get('debug_spec'):
                key = 'D43:' + key       # the expression of a self-documenting f-string field rewritten (known finding)
            elif 0 < r['len_on'] - r['len_off'] <= r.get('slack', 0) + r.get('adjacent', 0):
                key = 'D30:' + key       # ... plus one space per literal that touched a keyword (known finding)
            what = '%s option=%s base=%s len_on=%d len_off=%d' % (name, r['option'], '|'.join(rid.split('|')[2:]), r['len_on'], r['len_off'])
        else:
            key = 'decision|%s' % ','.join('%s=%s' % (k, r[k]) for k in ('kind', 'L', 'C', 'refs', 'old_mentions', 'new_mentions', 'additional', 'decided'))
            what = key
        rep.violation(key=key, clause=v[0], what=what, replay={'kind': 'size', 'id': rid, 'record': r})
    dec = [r for r in records if r['what'] == 'decision']
    rep.sample({'decision': {k: dec[0][k] for k in ('kind', 'L', 'C', 'refs', 'old_mentions', 'new_mentions', 'additional', 'decided')}} if dec else {})
    sz = [r for r in records if r['what'] == 'size' and r['len_on'] < r['len_off']]
    if sz:
        rep.sample({'module': sz[0]['id'], 'len_on': sz[0]['len_on'], 'len_off': sz[0]['len_off']})
    rep.exhaustive = False
    rep.rule = ('pinned stdlib modules and the repository sources x 11 size options x 2 bases (all off; defaults minus the option): output byte lengths with the option on and off; '
                'plus synthetic modules: one literal of 16 kinds repeated 2..20 times, and one literal at 3 / 8 sites of each of %d syntactic kinds (annotated assignment, default, '
                'keyword, return, subscript, f-string, pattern, ...) at module level / in a function / in a method; small library modules (everything in __all__; imports and '
                'builtins used 1-3 times; unrelated functions reusing those names as parameters / locals / lambda parameters / class attributes, or not); plus up to 400 logged should_rename decisions per module; the synthetic modules also on the other interpreters (quick: 2.7 and 3.8); non-trivial = (module, option, base) triples whose two outputs differ in length' % len(SITES))
    rep.extra.update({'modules': len(jobs), 'decisions_logged': len(dec), 'size_pairs': len(records) - len(dec), 'corpus_skipped': skipped,
                      'checker_cmd': 'tlc Cost.tla (MC_Cost.cfg); tlc Trace_Size.tla over ndjson observations'})
    rep.assumptions += ['"real-world modules" = the pinned corpus; the property is a corpus observation, not a universal claim',
                        'decisions are logged by wrapping should_rename from outside; the inputs are read from the binding object']


if __name__ == '__main__':
    main_wrapper(PID, run)
