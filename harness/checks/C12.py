# -*- coding: utf-8 -*-
"""C12 - minifying never runs code taken from the input.

Decided by
  * Quote.tla: for every string over 11 character classes up to length 4 (quick) / 5 (thorough), every quote style and
    context, the text the escaping rules (M, transcribed from ministring / f_string) hand to eval() lexes (S, an independent
    literal lexer) as closed literals and nothing else - TLC, exhaustive;
  * FoldGateS.tla / FoldGate.tla: which expressions the constant folder may evaluate at all (S: closed literal arithmetic only; M: the gate of
    FoldConstants.visit_BinOp) - TLC, exhaustive over 107 380 expression shapes (13 binary x 4 unary operators over 10 leaf kinds, nested); every
    shape is concretised and run through the real minify() under the monitor, Trace_FoldGate.tla judges whether an eval happened where S allows none;
  * Trace_Eval.tla (EvalMonitor): the audit events of the real minify() on every enumerated string concretised into plain /
    f-string text / nested str / nested call / format spec / nested bytes contexts with payloads that would import a canary
    module if a quote closed early, on folding operands that are not literals, on the shape bank and corpus: every exec must
    directly follow the compilation of a closed literal expression and be closed bytecode; no import/open/spawn/socket event
    may mention a canary.
"""
import ast
import itertools
import json
import random

from ..common import main_wrapper, sha, MachineryError
from .. import tlc, local, evalmon, corpus, inputs

PID = 'C12'

CH = {'hash': '#', 'pay2': '+zq_canary_name.system(zq_canary_name)', 'sur': u'\ud800', 'sq': "'", 'dq': '"', 'bs': '\\', 'nl': '\n', 'cr': '\r', 'nul': '\x00', 'lb': '{', 'na': u'é', 'n': 'n', 'x': 'x', 'zero': '0'}
PAYLOAD = '+__import__("zq_canary_mod").system("zq_canary_cmd")+'
IN = ['sq', 'dq', 'bs', 'nl', 'cr', 'nul', 'lb', 'na', 'n', 'x', 'zero']


def strings(maxlen):
    for n in range(0, maxlen + 1):
        for t in itertools.product(IN, repeat=n):
            yield t


def attack_strings():
    """the Attacks set of Quote.tla: quote run + payload + quote run"""
    out = []
    for q1 in ('sq', 'dq'):
        for q2 in ('sq', 'dq'):
            for n1 in range(1, 5):
                for n2 in range(0, 5):
                    for mid in (('na',), ('bs', 'na'), ('na', 'bs'), ('nl', 'na'), ('sur', 'na'), ('na', 'sur')):
                        out.append((q1,) * n1 + mid + (q2,) * n2)
    # text that cannot be encoded (a lone surrogate) sends the escaping code down its fallback path: surrogate, then quotes, then the payload
    for q in ('sq', 'dq'):
        for n in (1, 2, 3):
            out.append(('sur',) + (q,) * n + ('na',) + (q,) * n)
            out.append((q,) * n + ('sur',) + (q,) * n + ('na',) + (q,) * n)
    # a backslash in front of a quote (an escaping rule that forgets the backslash lets it swallow the closing quote), then quote-free code, then a comment
    # character that hides the rest of the evaluated text
    for q in ('sq', 'dq'):
        for q2 in ((), ('sq',), ('dq',)):
            for pre in ((), ('x',), ('sq',), ('dq',)):
                for bsn in (1, 2, 3):
                    out.append(pre + ('bs',) * bsn + (q, 'pay2', 'hash') + q2)
                    out.append(pre + ('bs',) * bsn + (q, 'pay2', 'hash', 'nl', 'x') + q2)
    return out


def contexts(s):
    """source texts that contain the string s (and its latin-1 bytes) in each evaluated context; derived via ast.unparse of a
    constructed tree and then *parsed as text* by minify() - the input is always text"""
    out = []
    r = repr(s)
    out.append(('plain', 'x = %s\ny = %s\nz = %s\n' % (r, r, r)))

    def via_ast(values):
        m = ast.Module(body=[ast.Assign(targets=[ast.Name(id='x', ctx=ast.Store())], value=ast.JoinedStr(values=values), lineno=1)], type_ignores=[])
        ast.fix_missing_locations(m)
        try:
            t = ast.unparse(m) + '\n'
            ast.parse(t)
            return t
        except Exception:
            return None
    fv = lambda v, spec=None: ast.FormattedValue(value=v, conversion=-1, format_spec=spec)   # noqa: E731
    N = lambda: ast.Name(id='zq_canary_name', ctx=ast.Load())   # noqa: E731
    if s:
        out.append(('f_lit', via_ast([ast.Constant(value=s), fv(N())])))
        out.append(('f_lit2', via_ast([fv(N()), ast.Constant(value=s), fv(N()), ast.Constant(value=s)])))
        out.append(('f_nested_str', via_ast([fv(ast.Constant(value=s))])))
        out.append(('f_nested_call', via_ast([ast.Constant(value='p'), fv(ast.Call(func=N(), args=[ast.Constant(value=s)], keywords=[]))])))
        out.append(('f_spec', via_ast([fv(N(), ast.JoinedStr(values=[ast.Constant(value=s)]))])))
        out.append(('f_nested_f', via_ast([fv(ast.JoinedStr(values=[ast.Constant(value=s), fv(N())]))])))
        try:
            b = s.encode('latin-1')
            out.append(('f_nested_bytes', via_ast([fv(ast.Constant(value=b))])))
            out.append(('bytes', 'x = %r\ny = %r\n' % (b, b)))
        except UnicodeEncodeError:
            pass
    return [(c, t) for c, t in out if t]


FOLD_ATTACKS = [
    'x = 1 + zq_canary_name\n', 'x = zq_canary_name * 2 + 3 * 4\n', 'x = (1).__class__ + 2\n', 'x = 1 + __import__("zq_canary_mod")\n',
    'x = 2 * (lambda: __import__("zq_canary_mod"))()\n', 'x = 1 + [zq_canary_name][0]\n', 'x = 1 + (zq_canary_name := 2)\n',
    'x = 1 if __import__("zq_canary_mod") else 2 + 3\n', 'x = 10 ** 2 + len(open("/verif/out/zq_canary_file").read())\n',
    'x = 1 + f"{__import__(\'zq_canary_mod\')}"\n', 'x = "a" * 3 + str(zq_canary_name)\n', 'x = 1 + True + None\n', 'x = 1 + ... \n',
    'x = 5 + -zq_canary_name\n', 'x = 5 - - 3 + ~2\n', 'x = 1 << 2 | 3 & 4 ^ 5\n', 'x = 2 ** 3 ** 2\n', 'x = 1 / 0 + 2\n', 'x = 1.5 + 2j * 3\n',
    'import zq_canary_mod\nfrom zq_canary_mod import zq_canary_name\nx = zq_canary_mod.a + 1 + 2\n',
    'def f(a=__import__("zq_canary_mod")): return a + 1 + 2\n',
    '@zq_canary_name(1 + 2)\nclass A(zq_canary_name, metaclass=zq_canary_name): x = 2 * 3\n',
    'x = f"{1 + 2}{zq_canary_name + 1 * 2}"\n', 'x = f"{\'a\' \'b\'!r:{1 + 2}}"\n',
    'exec("import zq_canary_mod")\neval("__import__(\'zq_canary_mod\')")\nx = 1 + 2\n',
    '__import__("os").system("zq_canary_cmd")\n', 'open("/verif/out/zq_canary_file", "w")\n',
]


LEAF_TEXT = {'num': '3', 'inf': '1e999', 'imag': '2j', 'infimag': '1e999j', 'true': 'True', 'none': 'None', 'str': "'a'", 'bytes': "b'a'", 'ellipsis': '...', 'name': 'zq_canary_name',
             'call': '__import__("zq_canary_mod")', 'attr': 'zq_canary_name.real', 'fstr': 'f"{zq_canary_name}"'}
UN_TEXT = {'uadd': '+', 'usub': '-', 'invert': '~', 'not': 'not '}
BIN_TEXT = {'Add': '+', 'Sub': '-', 'Mult': '*', 'Div': '/', 'FloorDiv': '//', 'Mod': '%', 'Pow': '**', 'LShift': '<<', 'RShift': '>>', 'BitOr': '|',
            'BitXor': '^', 'BitAnd': '&', 'MatMult': '@'}


def expr_text(e):
    """FoldGate.tla expression tree -> fully parenthesised source text"""
    if e[0] == 'leaf':
        return LEAF_TEXT[e[1]]
    if e[0] == 'un':
        return '(%s%s)' % (UN_TEXT[e[1]], expr_text(e[2]))
    return '(%s %s %s)' % (expr_text(e[2]), BIN_TEXT[e[1]], expr_text(e[3]))


def gate_replay(args, rep, rng):
    """FoldGate.tla: M |= S by TLC; every exported expression shape through the real minify() under the monitor, judged by Trace_FoldGate"""
    r = tlc.check_model('FoldGate', 'MC_FoldGate.cfg', timeout=3600)
    rep.add_model('FoldGate/MC_FoldGate.cfg', r)
    if r.violated:
        raise MachineryError('FoldGate.tla: the gate as transcribed does not satisfy S (%s)' % r.violated)
    cases, _ = tlc.cached_export('FoldGate', 'Export_FoldGate.cfg', timeout=3600)
    total = len(cases)
    cases.sort(key=lambda c: json.dumps(c['e']))
    if args.tier == 'quick':
        rng.shuffle(cases)
        cases = cases[:20000]
    jobs = [{'id': 'g%d' % k, 'src': 'x = %s\n' % expr_text(c['e']), 'opts': {}} for k, c in enumerate(cases)]
    obs = local.pmap(evalmon.monitored_minify, jobs, chunksize=64)
    rep.evaluations += len(obs)
    recs = []
    drift = 0
    for c, o in zip(cases, obs):
        recs.append({'id': o['id'], 'e': c['e'], 'n_exec': o['n_exec']})
        if o['n_exec']:
            rep.nontrivial.add(sha(json.dumps(c['e'])))
        if bool(o['n_exec']) != bool(c['m_evals']):
            drift += 1
    verdicts, judged = tlc.judge('Trace_FoldGate', 'Trace_FoldGate.cfg', recs, tag='C12g')
    rep.add_judged(judged)
    jb = {j['id']: j for j in jobs}
    for rid, v in sorted(verdicts.items()):
        rep.violation(key='gate:' + jb[rid]['src'].strip(), clause=v[0], what='%s source=%r' % (rid, jb[rid]['src']),
                      replay={'kind': 'minify', 'version': '3.12', 'src_b64': inputs.b64(jb[rid]['src'].encode()), 'opts': {}})
    rep.extra.update({'foldgate_cases_enumerated_by_tlc': total, 'foldgate_cases_replayed': len(cases), 'foldgate_model_drift': drift})
    return jobs, obs


def run(args, rep):
    rng = random.Random(args.seed)
    gjobs, gobs = gate_replay(args, rep, rng)
    cfg = 'MC_Quote4.cfg' if args.tier == 'quick' else 'MC_Quote5.cfg'
    r = tlc.check_model('Quote', cfg, timeout=7200)
    rep.add_model('Quote/' + cfg, r)
    if r.violated:
        raise MachineryError('Quote.tla: the escaping rules as transcribed do not satisfy S (%s)' % r.violated)
    maxlen = 3 if args.tier == 'quick' else 4
    jobs = []
    nstr = 0
    for t in strings(maxlen):
        nstr += 1
        variants = [''.join(CH[c] for c in t)]
        if 'na' in t:
            # the non-ASCII class also stands for a payload that would import a canary if it escaped its literal
            variants.append(''.join(PAYLOAD if c == 'na' else CH[c] for c in t))
        for vi, s in enumerate(variants):
            for ctx, src in contexts(s):
                jobs.append({'id': 'q:%s:%d:%s' % ('.'.join(t), vi, ctx), 'src': src, 'opts': {}})
    natt = 0
    for t in attack_strings():
        natt += 1
        for vi, s in enumerate([''.join(CH[c] for c in t), ''.join(PAYLOAD if c == 'na' else CH[c] for c in t)]):
            for ctx, src in contexts(s):
                jobs.append({'id': 'a:%s:%d:%s' % ('.'.join(t), vi, ctx), 'src': src, 'opts': {}})
    if args.tier == 'quick':
        rng.shuffle(jobs)
        keep = [j for j in jobs if j['id'].count('.') <= 1 or j['id'].startswith('a:')]
        rest = [j for j in jobs if j['id'].count('.') > 1 and not j['id'].startswith('a:')]
        jobs = keep + rest[:9000]
    for k, src in enumerate(FOLD_ATTACKS):
        for on, o in (('default', {}), ('all', local.ALL_ON)):
            jobs.append({'id': 'fold:%d:%s' % (k, on), 'src': src, 'opts': o})
    for name, b in inputs.shapes('3.12'):
        jobs.append({'id': name, 'src': b.decode('utf-8', 'surrogatepass'), 'opts': {}})
    files, skipped = corpus.stdlib('3.12', 40 if args.tier == 'quick' else 200)
    for p, b in files + corpus.repo_sources():
        jobs.append({'id': 'file:' + p, 'src': b, 'opts': {}})
    obs = local.pmap(evalmon.monitored_minify, jobs, chunksize=32)
    rep.evaluations += len(obs)
    jobs = jobs + gjobs          # the events of the FoldGate replays are judged at the event level too
    obs = obs + gobs
    total_exec = 0
    records = []
    for o in obs:
        total_exec += o['n_exec']
        if o['n_exec']:
            rep.nontrivial.add(sha(o['id']))
        records.append({'id': o['id'], 'events': [{'ev': e['ev'], 'toks': e['toks'], 'closed': e['closed'], 'canary': e['canary']} for e in o['events']]})
    verdicts, judged = tlc.judge('Trace_Eval', 'Trace_Eval.cfg', records, tag='C12')
    rep.add_judged(judged)
    jb = {j['id']: j for j in jobs}
    for rid, v in sorted(verdicts.items()):
        j = jb[rid]
        src = j['src'] if isinstance(j['src'], str) else j['src'].decode('utf-8', 'replace')
        rep.violation(key=rid, clause=v[0], what='%s source=%r' % (rid, src[:120]),
                      replay={'kind': 'minify', 'version': '3.12', 'src_b64': inputs.b64(src.encode('utf-8', 'surrogatepass')), 'opts': j['opts']})
    ob = {o['id']: o for o in obs}
    for sid in ('q:sq.bs:0:f_lit', 'fold:0:default'):
        if sid in ob:
            rep.sample({'input': sid, 'source': jb[sid]['src'], 'events': [(e['ev'], e['toks'][:6], e['closed']) for e in ob[sid]['events'][:8]]})
    rep.exhaustive = False
    rep.rule = ('every string over 11 character classes up to length %d (%d strings; the non-ASCII class additionally as an import payload) in 9 contexts '
                '[quick: all of length <= 2 and a seeded 9 000 of the rest], folding attacks, shape bank, pinned corpus; every minify() call runs under the '
                'audit-hook monitor; non-trivial = inputs during which at least one eval happened' % (maxlen, nstr))
    rep.extra.update({'exec_events_observed': total_exec, 'strings_enumerated': nstr, 'attack_strings': natt, 'corpus_skipped': skipped,
                      'checker_cmd': 'tlc Quote.tla (%s); tlc Trace_Eval.tla over audit-event traces' % cfg})
    rep.assumptions += ['audit hooks (sys.addaudithook) report every compile/exec/import/open; CPython >= 3.8 only (orchestrator interpreter 3.12)',
                        'loading of the minifier\'s own modules from disk is not input-derived and is not judged (paths are checked for canaries)',
                        'attribution of import/open/spawn/socket events to the input is by canary names that occur only in the input']


if __name__ == '__main__':
    main_wrapper(PID, run)
