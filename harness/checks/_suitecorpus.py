"""C05 on real modules (section of C05): the eraser of harness/suitecanon.py is first tied to SuiteS.tla - for every case TLC exports with
its Allowed set, the eraser must accept every allowed block and reject every block that is allowed only with more options - and then
applied to the pinned corpus under each single option, all options, the defaults and no option; Trace_SuiteCorpus.tla gives the verdicts."""
from ..common import MachineryError, sha
from .. import tlc, local, corpus, inputs, suitecanon

ALL = ['remove_pass', 'remove_literal_statements', 'combine_imports', 'ann_variable', 'ann_class', 'ann_argument', 'ann_return', 'remove_object_base',
       'remove_explicit_return_none', 'remove_builtin_exception_brackets', 'remove_asserts', 'remove_debug']
DEFAULTS = ['remove_pass', 'combine_imports', 'ann_variable', 'ann_argument', 'ann_return', 'remove_object_base', 'remove_explicit_return_none',
            'remove_builtin_exception_brackets']


def corpus_section(args, rep, rng):
    # 1. the eraser against S
    c1, _ = tlc.cached_export('Suite', 'Export_SuiteAllowed1.cfg')
    c2, _ = tlc.cached_export('Suite', 'Export_SuiteAllowed2.cfg', timeout=3600)
    c2 = [c for c in c2 if len(c['blk']) == 2]
    rng.shuffle(c2)
    cases = c1 + (c2[:4000] if args.tier == 'quick' else c2)
    res = local.pmap(suitecanon.validate_case, cases, chunksize=64)
    bad = [b for r in res for b in r]
    # a string that S lets slide into docstring position of a module that uses __doc__ is the known finding D20; the eraser (rightly) keeps it apart
    bad = [b for b in bad if not (b['ctx'] == 'module_top' and b['env'].get('usesDoc') and b['b'][:1] == [['litstr']] and b['blk'][:1] != [['litstr']])]
    if bad:
        raise MachineryError('the eraser of harness/suitecanon.py disagrees with SuiteS.tla on %d cases, e.g. %r' % (len(bad), bad[0]))
    # 2. the corpus
    optsets = {'none': [], 'all': ALL, 'defaults': DEFAULTS}
    for o in ALL:
        optsets['only-' + o] = [o]
    files, skipped = corpus.stdlib('3.12', 40 if args.tier == 'quick' else None)
    srcs = [('file:' + p, b) for p, b in files] + [('repo:' + p, b) for p, b in corpus.repo_sources()] + inputs.shapes('3.12')
    jobs = [{'id': name, 'src': b, 'optsets': optsets} for name, b in srcs]
    recs = [r for rs in local.pmap(suitecanon.observe_module, jobs, chunksize=2) for r in rs]
    rep.evaluations += len(recs)
    for r in recs:
        if r['changed']:
            rep.nontrivial.add(sha(r['id']))
    verdicts, judged = tlc.judge('Trace_SuiteCorpus', 'Trace_SuiteCorpus.cfg', [{k: r[k] for k in ('id', 'opts', 'outcome', 'equal', 'changed')} for r in recs], tag='C05c')
    rep.add_judged(judged)
    by = {r['id']: r for r in recs}
    src_of = dict(srcs)
    for rid, v in sorted(verdicts.items()):
        if v[0].startswith('machinery:'):
            raise MachineryError(v[0])
        r = by[rid]
        name = rid.rsplit('|', 1)[0]
        rep.violation(key='corpus:%s|%s' % (rid, v[0]), clause=v[0], what='%s options=%s\n  erased input : ...%s\n  erased output: ...%s' % (rid, r['opts'], r['diff_in'], r['diff_out']),
                      replay={'kind': 'suite-corpus', 'check': 'C05', 'id': rid, 'opts': r['opts'], 'src_b64': inputs.b64(src_of[name] if isinstance(src_of[name], bytes) else src_of[name].encode())})
    rep.extra.update({'eraser_cases_checked_against_S': len(cases), 'eraser_allowed_blocks_checked': sum(len(c['allowed']) for c in cases),
                      'eraser_forbidden_blocks_checked': sum(len(c['wider']) for c in cases), 'corpus_modules': len(jobs), 'corpus_option_sets': len(optsets),
                      'corpus_records': len(recs), 'corpus_records_changed_by_minify': sum(1 for r in recs if r['changed']), 'corpus_skipped': skipped})
    ch = [r for r in recs if r['changed']]
    if ch:
        rep.sample({'corpus_module': ch[0]['id'], 'options': ch[0]['opts'], 'erased_trees_equal': ch[0]['equal']})
    return len(recs)
