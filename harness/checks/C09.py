"""C09 - dynamic name access freezes every name in the module.

Decided by Rename.tla (Frozen: a tainted module keeps every spelling, all programs in bounds), Pipeline.tla (gating of the stages that
introduce or drop names) and
  * Trace_Rename.tla (clause c09) on every enumerated scope program concretised with a taint trigger,
  * Trace_Taint.tla on generated programs: each trigger (exec, eval, locals, globals, vars as builtin references, star import; the exec
    statement on 2.7) in each syntactic position x every combination of the naming options and preserve lists: identifier multiset,
    stage events and flags through the outside seams, and a run that enumerates namespaces and looks names up by string.
"""
import ast
import io
import itertools
import random
import sys

from ..common import main_wrapper, sha, available_versions
from .. import tlc, local, pool, inputs
from . import _rename

PID = 'C09'

TRIGGERS = {
    'eval': "eval('1')", 'exec': "exec('pass')", 'locals': 'locals()', 'globals': 'globals()', 'vars': 'vars()',
    'eval-ref': 'eval', 'vars-attr': 'vars.__name__',
}
LOOKALIKES = {
    'method-eval': "helper_object.eval('1')", 'string-eval': "'eval'", 'attr-locals': 'helper_object.locals', 'kw-eval': 'ident(eval=1)',
}

# {T} is replaced by the trigger expression.  Every template has renamable locals and globals, a repeated literal, a builtin used
# repeatedly and an argument-less builtin exception, and reports names by enumeration / lookup by string.
POSITIONS = {
    'module-stmt': "{T}\n",
    'function-body': "def trig():\n    return {T}\ntrig()\n",
    'nested-function': "def outer_trig():\n    def inner_trig():\n        return {T}\n    return inner_trig()\nouter_trig()\n",
    'class-body': "class TrigClass:\n    attribute_value = {T}\n",
    'method': "class TrigClass:\n    def method_name(self):\n        return {T}\nTrigClass().method_name()\n",
    'lambda-body': "trig_lambda = lambda: {T}\ntrig_lambda()\n",
    'comprehension': "trig_list = [{T} for loop_variable in range(2)]\n",
    'default-value': "def trig(parameter_name={T}):\n    return parameter_name\ntrig()\n",
    'decorator': "def deco(value):\n    return lambda f: f\n@deco({T})\ndef trig():\n    pass\n",
    'call-arg': "ident({T})\n",
    'fstring': 'trig_text = f"{{T}}"\n',
    'dead-branch': "if module_level_counter < 0:\n    {T}\n",
    'after-local-import': "def trig():\n    import os\n    return {T}\ntrig()\n",
    'except-handler': "try:\n    raise KeyError()\nexcept KeyError:\n    {T}\n",
    'conditional-expr': "trig_value = ({T}) if module_level_counter else None\n",
}

PRELUDE = '''class HelperObject:
    def eval(self, text):
        return text
    locals = 1
helper_object = HelperObject()
def ident(value=None, **keywords):
    return value
module_level_counter = 3
module_level_message = 'a repeated literal value'
'''
BODY = '''def reports(first_argument, second_argument=2):
    local_total = first_argument + second_argument
    local_message = 'a repeated literal value' + 'a repeated literal value'
    local_names = sorted(locals())
    looked_up = eval('local_total') + len(local_message) + len('a repeated literal value')
    return local_names, looked_up, len(local_names), len(local_message), len(sorted(local_names))
def raises():
    try:
        raise ValueError()
    except ValueError as caught_error:
        return type(caught_error).__name__
print(reports(1), raises())
print(sorted(name for name in globals() if not name.startswith('__')))
print(eval('module_level_counter'), eval('module_level_message'))
'''
# variant of BODY without its own dynamic lookups (so that the only trigger is the one under test)
BODY_PLAIN = '''def reports(first_argument, second_argument=2):
    local_total = first_argument + second_argument
    local_message = 'a repeated literal value' + 'a repeated literal value'
    return local_total, len(local_message), len('a repeated literal value'), len(str(local_total)), len(str(second_argument))
def raises():
    try:
        raise ValueError()
    except ValueError as caught_error:
        return type(caught_error).__name__
print(reports(1), raises(), module_level_counter, module_level_message)
'''


def identifiers(src):
    """sorted multiset of every identifier occurrence that naming can touch"""
    t = ast.parse(src)
    out = []
    for n in ast.walk(t):
        if isinstance(n, ast.Name):
            out.append(n.id)
        elif isinstance(n, ast.arg):
            out.append(n.arg)
        elif isinstance(n, (ast.FunctionDef, ast.AsyncFunctionDef, ast.ClassDef)):
            out.append(n.name)
        elif isinstance(n, (ast.Global, ast.Nonlocal)):
            out += n.names
        elif isinstance(n, ast.alias):
            out.append(n.asname or n.name)
        elif isinstance(n, ast.ExceptHandler) and n.name:
            out.append(n.name)
    return sorted(out)


def run_prog(src):
    buf = io.StringIO()
    old = sys.stdout
    sys.stdout = buf
    try:
        try:
            exec(compile(src, 'taintprog', 'exec'), {'__name__': 'taintprog'})
            exc = ''
        except BaseException as e:  # noqa
            exc = type(e).__name__
    finally:
        sys.stdout = old
    return buf.getvalue()[:4000] + '|' + exc


def observe(job):
    o = local.observe_minify({'id': job['id'], 'src': job['src'], 'opts': job['opts']})
    out = o.get('out')
    rec = {'id': job['id'], 'trigger': job['trigger'], 'outcome': o['outcome'], 'seams': True, 'tainted_observed': o['tainted'],
           'stages': o['stages'], 'opts': o['opts'], 'ids_in': identifiers(job['src']), 'ids_out': identifiers(out) if out is not None else [],
           'ran': False, 'run_in': '', 'run_out': ''}
    if out is not None and job.get('run', True):
        rec['ran'] = True
        rec['run_in'] = run_prog(job['src'])
        rec['run_out'] = run_prog(out)
    rec['_out'] = out
    return rec


def run(args, rep):
    rng = random.Random(args.seed)
    _rename.model(rep, args.tier)
    r = tlc.check_model('Pipeline', 'MC_Pipeline.cfg')
    rep.add_model('Pipeline/MC_Pipeline.cfg', r)
    # (a) enumerated scope programs with a trigger
    progs, total = _rename.programs(args.tier, rng)
    if args.tier == 'quick':
        progs = progs[:6484] + progs[6484 + 4156:][:1500]
    optsets = [('TT-taint', {'rl': True, 'rg': True, 'taint': True}), ('TF-taint', {'rl': True, 'rg': False, 'taint': True})]
    skipped = _rename.observe_and_judge(rep, progs, optsets, ['c09:'], 'C09', rng, variant_share=0.0, store_share=0.04)
    # (a') the trigger is one of the program's own names: x is spelled eval / exec / locals / globals / vars, so whether the module refers to the builtin
    # depends on where x is bound and read (PyScope.tla decides); every function and the module also have a renamable name of their own.
    # Programs: the enumerated ones and the deep chains module > s2 > s3 > s4 of every kind (class in class in function, ...)
    own, _ = _rename.chain_programs(args.tier, rng, n_nested=4000, n_other=2000)
    own += [pp for pp in progs if rng.random() < (0.3 if args.tier == 'quick' else 1.0)]
    trig_names = ['eval', 'exec', 'locals', 'globals', 'vars']
    jobs2 = []
    for pid, p in own:
        tn = trig_names[rng.randrange(len(trig_names))]
        jobs2.append({'id': '%s|TT|own-%s' % (pid, tn), 'p': p, 'variant': 0, 'opts': {'rl': True, 'rg': True}, 'names': {'x': tn}, 'witness': True})
        if len(p['kind']) > 1 and rng.random() < 0.4:
            # ... with the nested scopes defined inside an except handler / match case / with / finally / loop else / keyword value: the freeze has to reach them
            pl = _rename.PLACEMENTS[rng.randrange(len(_rename.PLACEMENTS))]
            jobs2.append({'id': '%s|TT|own-%s-p-%s' % (pid, tn, pl), 'p': p, 'variant': 0, 'opts': {'rl': True, 'rg': True}, 'names': {'x': tn}, 'witness': True, 'place': pl})
        if rng.random() < 0.3:
            # ... with a value-less annotation of the name at module level (`eval: int` binds nothing: a read still reaches the builtin)
            jobs2.append({'id': '%s|TT|own-%s-d-ann' % (pid, tn), 'p': p, 'variant': 0, 'opts': {'rl': True, 'rg': True}, 'names': {'x': tn}, 'witness': True, 'deco': ['ann']})
        if rng.random() < 0.5 and any('store' in hs for u in p['uses'] for hs in u.values()):
            # the stores spelled as another binding statement (annotated assignment with every annotation removal on, for, with, tuple, import), also one suite down
            sp = _rename.STORE_SPELLINGS[rng.randrange(len(_rename.STORE_SPELLINGS))]
            jobs2.append({'id': '%s|TT|own-%s-s-%s' % (pid, tn, sp), 'p': p, 'variant': 0, 'opts': {'rl': True, 'rg': True}, 'names': {'x': tn}, 'witness': True,
                          'store': sp, 'wrap': rng.random() < 0.5})
    skipped2 = _rename.judge_jobs(rep, jobs2, ['c09:'], 'C09o')
    own_n = len(jobs2)
    # (b) generated trigger programs
    jobs = []
    optnames = ['rename_locals', 'rename_globals', 'hoist_literals', 'remove_builtin_exception_brackets']
    combos = list(itertools.product([False, True], repeat=4))
    STRUCT_OFF = dict(remove_literal_statements=False, combine_imports=False, remove_annotations=False, remove_pass=False, remove_object_base=False,
                      remove_asserts=False, remove_debug=False, remove_explicit_return_none=False, constant_folding=False, convert_posargs_to_args=False)
    for pos, tmpl in POSITIONS.items():
        for tname, texpr in list(TRIGGERS.items()) + list(LOOKALIKES.items()):
            trig = tname in TRIGGERS
            for body_name, body in (('dyn', BODY), ('plain', BODY_PLAIN)):
                if not trig and body_name == 'dyn':
                    continue
                src = PRELUDE + tmpl.replace('{T}', texpr) + body
                try:
                    compile(src, 's', 'exec')
                except SyntaxError:
                    continue
                for ci, combo in enumerate(combos):
                    if args.tier == 'quick' and ci not in (3, 5, 10, 15) and body_name == 'dyn':
                        continue
                    o = dict(STRUCT_OFF)
                    o.update(dict(zip(optnames, combo)))
                    for pres in ((None, None), (['local_total'], ['reports'])):
                        if pres[0] and (args.tier == 'quick' and ci != 15):
                            continue
                        o2 = dict(o)
                        if pres[0]:
                            o2['preserve_locals'] = list(pres[0])
                            o2['preserve_globals'] = list(pres[1])
                        jobs.append({'id': '%s|%s|%s|%s|%s' % (pos, tname, body_name, ''.join('1' if c else '0' for c in combo), 'p' if pres[0] else '-'),
                                     'src': src, 'opts': o2, 'trigger': trig or body_name == 'dyn'})
    # star import
    for combo in combos:
        o = dict(STRUCT_OFF)
        o.update(dict(zip(optnames, combo)))
        jobs.append({'id': 'star-import|module|plain|%s|-' % ''.join('1' if c else '0' for c in combo), 'src': 'from os.path import *\n' + PRELUDE + BODY_PLAIN,
                     'opts': o, 'trigger': True})
        jobs.append({'id': 'star-import|function-level-2|plain|%s|-' % ''.join('1' if c else '0' for c in combo),
                     'src': PRELUDE + 'from os.path import *\n' + BODY_PLAIN + 'print(join("a", "b"))\n', 'opts': o, 'trigger': True})
    obs = local.pmap(observe, jobs, chunksize=8)
    rep.evaluations += len(obs)
    keep = {}
    records = []
    for o in obs:
        keep[o['id']] = o
        records.append({k: v for k, v in o.items() if not k.startswith('_')})
        if o['trigger']:
            rep.nontrivial.add(sha(o['id'].rsplit('|', 2)[0]))
    # (c) Python 2.7: the exec statement, and star imports inside function bodies (legal there on 2.x)
    if '2.7' in available_versions():
        progs27 = {
            'py27-exec-stmt': ("module_level_counter = 3\ndef reports(first_argument):\n    local_total = first_argument + 1\n    exec 'local_total = 5'\n"
                               "    return local_total, sorted(locals())\nprint reports(1)\nprint sorted(n for n in globals() if not n.startswith('__'))\n"),
            'py27-star-in-function': ("module_level_counter = 3\ndef reports(first_argument):\n    doubled_value = first_argument * 2\n    other_value = doubled_value + 1\n"
                                      "    from re import *\n    return doubled_value + other_value + module_level_counter, I\nprint reports(5)\n"),
            'py27-star-in-nested-function': ("def outer_function(first_argument):\n    long_local_name = first_argument + 1\n    def inner_function(second_argument):\n"
                                             "        inner_local_name = second_argument * 2\n        from re import *\n        return inner_local_name, I\n"
                                             "    return inner_function(long_local_name), long_local_name\nprint outer_function(2)\n"),
            'py27-star-at-module': ("from re import *\nmodule_level_counter = 3\ndef reports(first_argument):\n    doubled_value = first_argument * 2\n"
                                    "    return doubled_value + module_level_counter, I\nprint reports(5)\n"),
            # the exec statement with an explicit namespace: `exec code in g[, l]` and its tuple spelling are the same statement, and the namespace may well be the
            # live frame / module dictionary without any of the trigger names being spelled
            'py27-exec-in-frame-namespaces': ("import sys\nmodule_level_counter = 3\ndef reports(first_argument):\n    local_total = first_argument + 1\n    frame = sys._getframe()\n"
                                              "    exec 'computed_value = local_total + module_level_counter' in frame.f_globals, frame.f_locals\n"
                                              "    return sorted(frame.f_locals), frame.f_locals['computed_value']\nprint reports(1)\n"),
            'py27-exec-tuple-form': ("import sys\nmodule_level_counter = 3\ndef reports(first_argument):\n    local_total = first_argument + 1\n    frame = sys._getframe()\n"
                                     "    exec('computed_value = local_total + module_level_counter', frame.f_globals, frame.f_locals)\n"
                                     "    return sorted(frame.f_locals), frame.f_locals['computed_value']\nprint reports(1)\n"),
            'py27-exec-in-module-dictionary': ("import sys\nmodule_level_counter = 3\nmodule_dictionary = sys._getframe().f_globals\n"
                                               "def reports(first_argument):\n    local_total = first_argument + 1\n    return local_total + module_level_counter\n"
                                               "exec 'created_name = reports(module_level_counter)' in module_dictionary\nprint created_name\n"
                                               "print sorted(n for n in module_dictionary if not n.startswith('__'))\n"),
            'py27-exec-in-nested': ("def outer_function(first_argument):\n    long_local_name = first_argument + 1\n    def inner_function():\n        exec 'pass'\n        return 1\n"
                                    "    return inner_function() + long_local_name\nprint outer_function(2)\n"),
        }
        import keyword as _kw
        KEYWORDS27 = set(_kw.kwlist) | {'exec', 'print'}
        import io as _io
        import tokenize as _tok

        def names_of(text):
            try:
                # identifiers only: `exec code in ns` and `exec(code, ns)` are one statement, the keyword `in` is not a name of the program
                return sorted(t.string for t in _tok.generate_tokens(_io.StringIO(text).readline) if t.type == _tok.NAME and t.string not in KEYWORDS27)
            except Exception:  # noqa
                return ['<untokenizable>']
        reqs = []
        for pname, src27 in sorted(progs27.items()):
            for ci, combo in enumerate(combos):
                o = dict(STRUCT_OFF)
                o.update(dict(zip(optnames, combo)))
                reqs.append({'op': 'minify', 'id': '%s|%d' % (pname, ci), 'src_b64': inputs.b64(src27.encode()), 'as_bytes': True, 'opts': o})
        res = pool.run_requests('2.7', reqs)
        exq = [{'op': 'exec', 'id': 'in:' + pname, 'src_b64': inputs.b64(src27.encode())} for pname, src27 in progs27.items()]
        exq += [{'op': 'exec', 'id': q['id'], 'src_b64': res[q['id']].get('out_b64', '')} for q in reqs if res.get(q['id'], {}).get('out_b64')]
        ex = pool.run_requests('2.7', exq)
        import base64 as _b64
        for q in reqs:
            a = res.get(q['id'], {})
            pname = q['id'].split('|')[0]
            if q['id'] not in ex or 'in:' + pname not in ex:
                continue
            out_text = _b64.b64decode(a.get('out_b64', '')).decode('utf-8', 'replace')
            records.append({'id': q['id'], 'trigger': True, 'outcome': a.get('outcome', 'raise:?'), 'seams': False, 'tainted_observed': True, 'stages': [],
                            'opts': {}, 'ids_in': names_of(progs27[pname]), 'ids_out': names_of(out_text), 'ran': True,
                            'run_in': ex['in:' + pname].get('stdout', '') + ex['in:' + pname].get('exc', ''),
                            'run_out': ex[q['id']].get('stdout', '') + ex[q['id']].get('exc', '')})
            keep[q['id']] = {'_out': out_text, 'src': progs27[pname]}
            rep.evaluations += 1
    verdicts, judged = tlc.judge('Trace_Taint', 'Trace_Taint.cfg', records, tag='C09t')
    rep.add_judged(judged)
    jb = {j['id']: j for j in jobs}
    for rid, v in sorted(verdicts.items()):
        j = jb.get(rid, {'src': '', 'opts': {}})
        parts = rid.split('|')
        rep.violation(key='|'.join(parts[:3]) + '|' + v[0], clause=v[0], what='%s\n--- output:\n%s' % (rid, str(keep[rid].get('_out'))[:600]),
                      replay={'kind': 'minify', 'version': '3.12', 'src_b64': inputs.b64(j['src'].encode()), 'opts': j['opts']})
    rep.sample({'program': jobs[0]['id'], 'source': jobs[0]['src'][:400], 'observed_tainted': obs[0]['tainted_observed'], 'stages': [e['stage'] for e in obs[0]['stages']]})
    rep.exhaustive = False
    rep.rule = ('(a) enumerated scope programs of Rename.tla concretised with a module-level eval(); (a2) enumerated programs and every 4-deep chain of scopes with '
                'the name x itself spelled eval / exec / locals / globals / vars and a renamable name in every function: tainted iff PyScope.tla resolves a read of x to the builtin; (b) 7 triggers + 4 look-alikes x 15 syntactic positions x 2 bodies x '
                '16 combinations of rename_locals / rename_globals / hoist_literals / remove_builtin_exception_brackets [quick: 4] x preserve lists, star imports; '
                '(c) the exec statement on 2.7 (bare, `in` one / two namespaces, tuple form) and star imports in function bodies; non-trivial = distinct (position, trigger, body) programs that contain a trigger')
    rep.extra.update({'programs_enumerated_by_tlc': total, 'scope_programs_replayed': len(progs), 'trigger_programs': len(jobs), 'skipped': skipped, 'own_name_trigger_programs': own_n, 'skipped_own': skipped2,
                      'checker_cmd': 'tlc Rename.tla; tlc Pipeline.tla; tlc Trace_Rename.tla; tlc Trace_Taint.tla'})
    rep.assumptions += ['look-alikes (obj.eval, the string "eval", a keyword named eval) are not constrained',
                        'identifier multiset: Name ids, arg names, def/class names, global/nonlocal names, import bound names, except names']


if __name__ == '__main__':
    main_wrapper(PID, run)
