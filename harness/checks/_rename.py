"""Shared driver for the renaming properties C03, C04, C09, C10 (specs: PyScope.tla, Rename.tla, Trace_Rename.tla)."""
from __future__ import print_function

import random

from ..common import MachineryError, sha
from .. import tlc, local, scopegen, inputs


def model(rep, tier, deep=False):
    """deep: also the two-name model (22.4 M states, about 50 minutes) - run by the thorough tier of C03 when VERIF_DEEP_MODEL=1 is set; its configuration checks every invariant of
    the renamer model (NoCapture, StaysCompilable, InterfaceKept, Frozen, Preserved), so C04 / C09 / C10 do not repeat it"""
    cfgs = ['MC_Rename_q.cfg'] if (tier == 'quick' or not deep) else ['MC_Rename_q.cfg', 'MC_Rename_2n.cfg']
    for cfg in cfgs:
        r = tlc.check_model('Rename', cfg, timeout=3 * 3600)
        rep.add_model('Rename/' + cfg, r)
        if r.violated:
            raise MachineryError('Rename.tla: M does not satisfy the envelope (%s) - the model of the renamer is out of date' % r.violated)


def programs(tier, rng):
    p31, _ = tlc.cached_export('Rename', 'Export_Rename_3x1.cfg')
    p22, _ = tlc.cached_export('Rename', 'Export_Rename_2x2.cfg')
    p32, _ = tlc.cached_export('Rename', 'Export_Rename_3x2.cfg', timeout=3600)
    total = len(p31) + len(p22) + len(p32)
    idx = list(range(len(p32)))
    rng.shuffle(idx)
    take = 3000 if tier == 'quick' else 20000
    out = [('3x1-%d' % k, p) for k, p in enumerate(p31)] + [('2x2-%d' % k, p) for k, p in enumerate(p22)]
    out += [('3x2-%d' % k, p32[k]) for k in sorted(idx[:take])]
    if tier != 'quick':
        p41, _ = tlc.cached_export('Rename', 'Export_Rename_4x1.cfg', timeout=7200)
        total += len(p41)
        idx = list(range(len(p41)))
        rng.shuffle(idx)
        out += [('4x1-%d' % k, p41[k]) for k in sorted(idx[:20000])]
    return out, total


def chain_programs(tier, rng, n_nested=2000, n_other=1000):
    """deep nesting: every scope tree that is one chain module > s2 > s3 > s4 (all kinds, one name); quick takes a seeded sample that favours the
    chains with a class directly inside a class (which no 3-scope program contains)"""
    chain, _ = tlc.cached_export('Rename', 'Export_Rename_chain4.cfg', timeout=3600)
    total = len(chain)
    items = [('c4-%d' % k, p) for k, p in enumerate(chain)]
    if tier != 'quick':
        n_nested, n_other = 6 * n_nested, 8 * n_other
    nested = [it for it in items if 'cc' in ''.join(it[1]['kind'])]
    other = [it for it in items if 'cc' not in ''.join(it[1]['kind'])]
    rng.shuffle(nested)
    rng.shuffle(other)
    return sorted(nested[:n_nested] + other[:n_other], key=lambda it: int(it[0][3:])), total


STORE_SPELLINGS = ['ann', 'for', 'with', 'tuple', 'import', 'def', 'class']
PLACEMENTS = ['except', 'match', 'with', 'finally', 'loopelse']


def observe_and_judge(rep, progs, optsets, family, tag, rng, variant_share=0.25, store_share=0.1):
    """optsets: list of (name, opts dict for scopegen.observe)"""
    jobs = []
    for pid, p in progs:
        for on, o in optsets:
            jobs.append({'id': '%s|%s|v0' % (pid, on), 'p': p, 'variant': 0, 'opts': o})
        if rng.random() < store_share and any('store' in hs for u in p['uses'] for hs in u.values()):
            # the same program with its stores spelled as another binding statement (annotated assignment, for, with, tuple assignment, import)
            on, o = optsets[rng.randrange(len(optsets))]
            for sp in STORE_SPELLINGS:
                jobs.append({'id': '%s|%s|s-%s' % (pid, on, sp), 'p': p, 'variant': 0, 'opts': o, 'store': sp})
                # ... and one suite down, inside an `if` of the same scope
                jobs.append({'id': '%s|%s|s-%s-w' % (pid, on, sp), 'p': p, 'variant': 0, 'opts': o, 'store': sp, 'wrap': True})
        if store_share and any(p['kind'][k] == 'c' and 'store' in hs and 'load' in hs for k, u in enumerate(p['uses']) for hs in u.values()):
            # a class body that reads and binds the same name: always also with the binding spelled as a method / nested class (the read then falls back to the
            # module or, through the resolver, to an enclosing function's name)
            on, o = optsets[rng.randrange(len(optsets))]
            for sp in ('def', 'class'):
                jobs.append({'id': '%s|%s|cs-%s' % (pid, on, sp), 'p': p, 'variant': 0, 'opts': o, 'store': sp})
        if rng.random() < store_share:
            # mentions that bind nothing or are evaluated elsewhere: a value-less module-level annotation, `del` of a declared global, reads in the
            # annotations of *args / **kwargs
            on, o = optsets[rng.randrange(len(optsets))]
            for dk in ('ann', 'del', 'hdr'):
                jobs.append({'id': '%s|%s|d-%s' % (pid, on, dk), 'p': p, 'variant': 0, 'opts': o, 'deco': [dk]})
        if len(p['kind']) > 1 and rng.random() < 2 * store_share:
            # where the definitions of the nested scopes sit: in an except handler, a match case, a with statement, a finally clause, the else of a loop;
            # lambdas and comprehensions in a keyword-argument value
            on, o = optsets[rng.randrange(len(optsets))]
            pl = PLACEMENTS[rng.randrange(len(PLACEMENTS))]
            jobs.append({'id': '%s|%s|p-%s' % (pid, on, pl), 'p': p, 'variant': 0, 'opts': o, 'place': pl})
        if rng.random() < variant_share:
            on, o = optsets[0]
            jobs.append({'id': '%s|%s|v1' % (pid, on), 'p': p, 'variant': 1, 'opts': o})
        if variant_share and rng.random() < variant_share:
            # adversarial spellings: the program's own names are the first names the generator hands out; stores as alias-less imports
            on, o = optsets[rng.randrange(len(optsets))]
            jobs.append({'id': '%s|%s|vAB' % (pid, on), 'p': p, 'variant': 0, 'opts': o, 'names': {'x': 'A', 'y': 'B'}})
            jobs.append({'id': '%s|%s|vABi' % (pid, on), 'p': p, 'variant': 0, 'opts': o, 'names': {'x': 'A', 'y': 'B'}, 'imports': True})
            jobs.append({'id': '%s|%s|vi' % (pid, on), 'p': p, 'variant': 0, 'opts': o, 'imports': True})
            jobs.append({'id': '%s|%s|vABh' % (pid, on), 'p': p, 'variant': 0, 'opts': o, 'names': {'x': 'A', 'y': 'B'}, 'heavy': ['y']})
            # one name an alias-less import spelled like a generated name, the other cheap to rename and mentioned more often (it is assigned first and may take
            # the import's spelling: the import must then be renamed although that costs bytes)
            jobs.append({'id': '%s|%s|vABixh' % (pid, on), 'p': p, 'variant': 0, 'opts': o, 'names': {'x': 'A', 'y': 'B'}, 'imports': ['x'], 'heavy': ['y']})
            jobs.append({'id': '%s|%s|vABiyh' % (pid, on), 'p': p, 'variant': 0, 'opts': o, 'names': {'x': 'A', 'y': 'B'}, 'imports': ['y'], 'heavy': ['x']})
            jobs.append({'id': '%s|%s|vBAixh' % (pid, on), 'p': p, 'variant': 0, 'opts': o, 'names': {'x': 'B', 'y': 'A'}, 'imports': ['x'], 'heavy': ['y']})
    return judge_jobs(rep, jobs, family, tag)


def judge_jobs(rep, jobs, family, tag):
    """run scopegen.observe on the jobs and let Trace_Rename.tla judge the records; violations of the clause families given are reported"""
    obs = local.pmap(scopegen.observe, jobs, chunksize=64)
    rep.evaluations += len(obs)
    skipped = {}
    records = []
    keep = {}
    for o in obs:
        if o.get('skip'):
            skipped[o['skip']] = skipped.get(o['skip'], 0) + 1
            if o['skip'] == 'minify-raised':
                rep.violation(key='raised|' + o['msg'][:60], clause='c03:minify-raised-on-a-compilable-program', what=o['msg'] + ' source=' + repr(o['src'][:200]),
                              replay={'kind': 'minify', 'version': '3.12', 'src_b64': inputs.b64(o['src'].encode()), 'opts': {'rename_globals': True}})
            continue
        keep[o['id']] = o
        records.append({k: v for k, v in o.items() if k not in ('src', 'out_src')})
        if any(x['out'] != x['name'] for x in o['occ']):
            rep.nontrivial.add(sha(o['src']))
    if skipped.get('projection-failed', 0) > len(obs) // 50:
        raise MachineryError('projection failed on %d of %d outputs' % (skipped['projection-failed'], len(obs)))
    verdicts, judged = tlc.judge('Trace_Rename', 'Trace_Rename.cfg', records, tag=tag, timeout=7200)
    rep.add_judged(judged)
    for rid, v in sorted(verdicts.items()):
        clause = v[0]
        if not any(clause.startswith(f) for f in family):
            continue
        o = keep[rid]
        shape = 'kinds=%s par=%s uses=%s opts=%s' % (''.join(o['kind']), o['par'], sorted(set((x['scope'], x['name'], x['how']) for x in o['occ'])), rid.split('|')[1])
        rep.violation(key=sha(shape)[:12] + '|' + clause, clause=clause, what=rid + ' source:\n' + o['src'] + '--- output:\n' + o['out_src'],
                      replay={'kind': 'minify', 'version': '3.12', 'src_b64': inputs.b64(o['src'].encode()),
                              'opts': {'rename_locals': o['rl'], 'rename_globals': o['rg'], 'hoist_literals': False}, 'observed': {k: o[k] for k in ('occ', 'decl', 'alias')}})
    for o in list(keep.values())[:1] + [x for x in keep.values() if x['alias']][:1] + [x for x in keep.values() if 'walrus' in str(x['occ'])][:1]:
        rep.sample({'source': o['src'], 'output': o['out_src'], 'occurrences': [(x['scope'], x['name'], x['how'], x['out']) for x in o['occ']]})
    return skipped


def py2_replay(rep, tier, rng, family, tag, optsets):
    """the enumerated programs that exist on Python 2 (no nonlocal, no assignment expression), comprehensions written as list comprehensions, minified by
    the code running under 2.7; judged by the same Trace_Rename.tla after list comprehensions - which are not scopes there - are folded into the scope
    they stand in"""
    from ..common import available_versions
    if '2.7' not in available_versions():
        return 0
    p31, _ = tlc.cached_export('Rename', 'Export_Rename_3x1.cfg')
    p22, _ = tlc.cached_export('Rename', 'Export_Rename_2x2.cfg')
    progs = [('3x1-%d' % k, p) for k, p in enumerate(p31) if scopegen.py2_compatible(p)] + [('2x2-%d' % k, p) for k, p in enumerate(p22) if scopegen.py2_compatible(p)]
    with_comp = [x for x in progs if 'g' in x[1]['kind']]
    rest = [x for x in progs if 'g' not in x[1]['kind']]
    rng.shuffle(with_comp)
    rng.shuffle(rest)
    take = with_comp[:900] + rest[:400] if tier == 'quick' else progs
    jobs = []
    for pid, p in take:
        on, o = optsets[rng.randrange(len(optsets))]
        jobs.append({'id': 'py2:%s|%s|lc' % (pid, on), 'p': p, 'opts': o})
    obs = scopegen.observe_remote('2.7', jobs)
    rep.evaluations += len(obs)
    keep = {o['id']: o for o in obs if not o.get('skip')}
    for o in obs:
        if o.get('skip') == 'minify-raised':
            rep.violation(key='py2-raised|' + o['msg'][:60], clause='c03:minify-raised-on-a-compilable-program', what=o['msg'] + ' (python 2.7) source=' + repr(o['src'][:200]),
                          replay={'kind': 'minify', 'version': '2.7', 'src_b64': inputs.b64(o['src'].encode()), 'opts': {}})
    records = [{k: v for k, v in o.items() if k not in ('src', 'out_src')} for o in keep.values()]
    verdicts, judged = tlc.judge('Trace_Rename', 'Trace_Rename.cfg', records, tag=tag, timeout=7200)
    rep.add_judged(judged)
    for rid, v in sorted(verdicts.items()):
        if not any(v[0].startswith(f) for f in family):
            continue
        o = keep[rid]
        shape = 'py2 kinds=%s uses=%s opts=%s' % (''.join(o['kind']), sorted(set((x['scope'], x['name'], x['how']) for x in o['occ'])), rid.split('|')[1])
        rep.violation(key=sha(shape)[:12] + '|' + v[0], clause=v[0], what=rid + ' (python 2.7) source:\n' + o['src'] + '--- output:\n' + o['out_src'],
                      replay={'kind': 'minify', 'version': '2.7', 'src_b64': inputs.b64(o['src'].encode()),
                              'opts': {'rename_locals': o['rl'], 'rename_globals': o['rg'], 'hoist_literals': False}})
    return len(records)


def pep709_replay(rep, tier, rng, tag):
    """the PEP 709 skeleton (module > function > function > {comprehension, lambda | comprehension | function}) with list-comprehension spelling:
    TLC judges every observed renaming under the <= 3.11 rules and under the >= 3.12 rules (Trace_Rename709.cfg); a c03 rejection that exists only
    under the latter is the known finding D18"""
    progs, _ = tlc.cached_export('Rename', 'Export_Rename_709.cfg', timeout=3600)
    idx = list(range(len(progs)))
    rng.shuffle(idx)
    take = 2000 if tier == 'quick' else 10000
    jobs = [{'id': '709-%d|TT|lc' % k, 'p': progs[k], 'variant': 0, 'opts': {'rl': True, 'rg': True}, 'listcomp': True} for k in sorted(idx[:take])]
    obs = local.pmap(scopegen.observe, jobs, chunksize=64)
    rep.evaluations += len(obs)
    keep = {o['id']: o for o in obs if not o.get('skip')}
    records = [{k: v for k, v in o.items() if k not in ('src', 'out_src')} for o in keep.values()]
    v_old, judged = tlc.judge('Trace_Rename', 'Trace_Rename.cfg', records, tag=tag + 'a', timeout=7200)
    v_new, _ = tlc.judge('Trace_Rename', 'Trace_Rename709.cfg', records, tag=tag + 'b', timeout=7200)
    rep.add_judged(judged * 2)
    n709 = 0
    for rid, v in sorted(v_new.items()):
        if not v[0].startswith('c03:'):
            continue
        o = keep[rid]
        only_new = rid not in v_old or v_old[rid][0] == 'c03:behaviour-differs-although-the-static-rules-hold'
        if only_new:
            n709 += 1
        shape = 'kinds=%s uses=%s' % (''.join(o['kind']), sorted(set((x['scope'], x['name'], x['how']) for x in o['occ'])))
        rep.violation(key=('D18:' if only_new else '') + sha(shape)[:12] + '|' + v[0], clause=v[0], what=rid + ' source:\n' + o['src'] + '--- output:\n' + o['out_src'],
                      replay={'kind': 'minify', 'version': '3.12', 'src_b64': inputs.b64(o['src'].encode()), 'opts': {'rename_globals': True, 'hoist_literals': False}})
    for rid, v in sorted(v_old.items()):
        if rid in v_new or not v[0].startswith('c03:'):
            continue
        o = keep[rid]
        rep.violation(key='709old|' + rid + '|' + v[0], clause=v[0], what=rid + ' source:\n' + o['src'] + '--- output:\n' + o['out_src'],
                      replay={'kind': 'minify', 'version': '3.12', 'src_b64': inputs.b64(o['src'].encode()), 'opts': {'rename_globals': True}})
    return len(jobs), n709
