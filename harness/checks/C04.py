"""C04 - externally visible names are never changed.

Decided by Rename.tla (InterfaceKept: class-scope bindings, keyword-callable parameters, names never bound by the module, module-level
names without rename_globals - for every program in bounds under all option combinations) and
  * Trace_Rename.tla judging the real renamer on every enumerated program under all four (rename_locals, rename_globals) pairs (clauses c04:*),
  * Trace_Interface.tla judging the interface projection (attribute names, keyword-argument names, imported names, class-body names,
    keyword-callable parameter names, dunder names, names used but never bound, module-level names) of real modules before/after.
"""
import random

from ..common import main_wrapper, sha
from .. import tlc, local, corpus, inputs, interface
from . import _rename

PID = 'C04'

STRUCT_OFF = dict(remove_literal_statements=False, combine_imports=False, remove_annotations=False, remove_pass=False, remove_object_base=False,
                  remove_asserts=False, remove_debug=False, remove_explicit_return_none=False, constant_folding=False,
                  remove_builtin_exception_brackets=False, convert_posargs_to_args=False)


def run(args, rep):
    rng = random.Random(args.seed)
    _rename.model(rep, args.tier)
    progs, total = _rename.programs(args.tier, rng)
    if args.tier == 'quick':
        progs = progs[:6484 + 4156] + progs[6484 + 4156:][:2000]
    optsets = [('TT', {'rl': True, 'rg': True}), ('TF', {'rl': True, 'rg': False}), ('FT', {'rl': False, 'rg': True}), ('FF', {'rl': False, 'rg': False})]
    skipped = _rename.observe_and_judge(rep, progs, optsets, ['c04:'], 'C04', rng, variant_share=0.0)
    n_py2 = _rename.py2_replay(rep, args.tier, rng, ['c04:'], 'C04py2', optsets)
    # real modules
    # projected under CPython 3.11: from 3.12 on symtable merges inlined comprehension variables into the enclosing scope (PEP 709)
    files, sk = corpus.stdlib('3.11', 80 if args.tier == 'quick' else None)
    srcs = [('file:' + p, b) for p, b in files] + [('repo:' + p, b) for p, b in corpus.repo_sources()] + inputs.shapes('3.11')
    jobs = []
    for name, b in srcs:
        for on, o in (('locals+hoist', dict(STRUCT_OFF, rename_locals=True, hoist_literals=True, rename_globals=False)),
                      ('globals', dict(STRUCT_OFF, rename_locals=True, hoist_literals=True, rename_globals=True)),
                      ('default', {})):
            if on == 'default':
                continue
            jobs.append({'id': '%s|%s' % (name, on), 'src': b, 'opts': o})
    obs = interface.run_under('3.11', jobs)
    recs = [o for o in obs if not o.get('skip')]
    rep.evaluations += len(recs)
    verdicts, judged = tlc.judge('Trace_Interface', 'Trace_Interface.cfg', recs, tag='C04i')
    rep.add_judged(judged)
    byid = {o['id']: o for o in recs}
    for o in recs:
        if o['modbound_in'] != o['modbound_out'] or o['added']:
            rep.nontrivial.add(sha(o['id']))
    for rid, v in sorted(verdicts.items()):
        o = byid[rid]
        diff = {k[:-3]: (sorted(set(o[k]) - set(o[k[:-3] + '_out']))[:5], sorted(set(o[k[:-3] + '_out']) - set(o[k]))[:5]) for k in o if k.endswith('_in') and o[k] != o[k[:-3] + '_out']}
        rep.violation(key=rid + '|' + v[0], clause=v[0], what='%s differences (lost, gained): %s added=%s' % (rid, diff, o['added'][:5]),
                      replay={'kind': 'interface', 'id': rid})
    if recs:
        rep.sample({'module': recs[0]['id'], 'module_level_names_added': recs[0]['added'], 'params': recs[0]['params_in'][:5]})
    rep.exhaustive = False
    rep.rule = ('enumerated programs as in C03 under all four (rename_locals, rename_globals) pairs; the programs that exist on Python 2 also minified under 2.7 (list comprehensions are not scopes there); plus pinned real modules, the repository sources and the shape '
                'bank under renaming/hoisting with structure-changing transforms off, projected to interface categories; non-trivial = programs with a respelled '
                'occurrence / modules whose module-level name set changed')
    rep.extra.update({'programs_enumerated_by_tlc': total, 'programs_replayed': len(progs), 'skipped': skipped, 'modules_projected': len(recs), 'programs_replayed_under_python_2_7': n_py2,
                      'checker_cmd': 'tlc Rename.tla; tlc Trace_Rename.tla; tlc Trace_Interface.tla'})
    rep.assumptions += ['documented freedom: the first parameter of an undecorated / classmethod method, *args/**kwargs names and positional-only parameters may be renamed',
                        'interface projection of real modules is static (ast + symtable of the interpreter)']


if __name__ == '__main__':
    main_wrapper(PID, run)
