"""C07 - constant folding never changes a value, its type, or an error; never makes the output longer.

Decided by Fold.tla (decision structure of visit_BinOp, M, against Python's numeric tower and the property's rule, S, for
every operator x operand-class cell) and Trace_Fold.tla judging the real folder: every cell TLC enumerated is instantiated
with several concrete literals per class in several syntactic contexts, plus seeded nested expressions; the interpreter under
test evaluates the expression in the input and in the minified output (type, value, sign bit, exception type).
"""
import base64
import itertools
import random

from ..common import main_wrapper, available_versions, sha, MachineryError
from .. import tlc, pool, inputs

PID = 'C07'

LITS = {
    'bool_f': ['False'], 'bool_t': ['True'],
    'int_zero': ['0', '0x0'], 'int_small': ['1', '2', '3', '10', '255', '0o17'], 'int_neg': ['(0-5)', '(0-1)'],
    'int_big': ['4294967296', '18446744073709551616'], 'int_huge': ['100000000000000000000000000000', '0xffffffffffffffffffffffffffffffff'],
    'float_zero': ['0.0'], 'float_negzero': ['(0.0*(0-1))'], 'float_fin': ['0.5', '2.5', '1e10', '123456789.125'], 'float_neg': ['(0.0-1.5)'],
    'float_max': ['1e308', '1.7976931348623157e308'], 'float_tiny': ['5e-324', '1e-320'], 'float_inf': ['1e999'],
    'complex': ['1j', '2.5j'], 'complex_zero': ['0j'], 'none': ['None'],
}
SYM = {'Add': '+', 'Sub': '-', 'Mult': '*', 'Div': '/', 'FloorDiv': '//', 'Mod': '%', 'Pow': '**', 'LShift': '<<', 'RShift': '>>',
       'BitOr': '|', 'BitXor': '^', 'BitAnd': '&', 'MatMult': '@'}
CTX = [('plain', '%s'), ('neg', '-(%s)'), ('pow1', '(%s)**1'), ('cls', '(%s).__class__'), ('item', '[%s][0]'), ('call', '(lambda v: v)(%s)'),
       ('pair', '(%s, %s)'), ('fstr', 'f"{%s}"'), ('lam', '(lambda: %s)()'), ('ifexp', '%s if 1 else 0'), ('cmp', '(%s) is None'),
       ('key', '{(%s): 1}.popitem()[0]'), ('default', '(lambda p=%s: p)()'), ('not', 'not (%s)'), ('sub', '[0, 1, 2][%s:]')]
# whole-module contexts in which the expression occurs three times in positions other transforms care about (defaults and decorators are evaluated
# outside the function they are written in; a result that is True / False / None may be hoisted): run under the DEFAULT options against the defaults
# without folding, so that folding is observed together with hoisting and renaming
INTERPLAY = [('defaults3', 'def f(a=%s, b=%s, c=%s): return (a, b, c)\nr = f()\n'),
             ('kwdefaults3', 'def f(*, a=%s, b=%s, c=%s): return (a, b, c)\nr = f()\n'),
             ('decorator3', 'def d(*v):\n    return lambda fn: v\n@d(%s, %s, %s)\ndef r(): pass\n'),
             ('lambda3', 'r = [(lambda: %s)(), (lambda: %s)(), (lambda: %s)()]\n'),
             ('comp3', 'r = [[%s for _ in [0]], [%s for _ in [0]], [%s for _ in [0]]]\n'),
             ('class3', 'class K:\n    a = %s\n    b = %s\n    c = %s\nr = (K.a, K.b, K.c)\n'),
             ('nested3', 'def outer():\n    def inner(a=%s, b=%s):\n        return (a, b, %s)\n    return inner()\nr = outer()\n')]
DEFAULTS_ON = {}
DEFAULTS_NOFOLD = {'constant_folding': False}
FOLD_ON = {'constant_folding': True, 'hoist_literals': False, 'rename_locals': False}
FOLD_OFF = {'constant_folding': False, 'hoist_literals': False, 'rename_locals': False}


def dangerous(op, l, r):
    """cells whose evaluation would allocate gigabytes inside the minifier (the folder evaluates shifts and products eagerly);
    they are excluded from replay and counted"""
    big = ('4294967296', '18446744073709551616', '100000000000000000000000000000', '0xffffffffffffffffffffffffffffffff')
    if op in ('LShift', 'Pow') and r in big:
        return True
    if op == 'Mult' and False:
        return True
    return False


def flatten(v):
    if 'items' in v:
        return '(' + ','.join(flatten(x) for x in v['items']) + ')'
    s = '%s:%s:%s:%s' % (v.get('type'), v.get('repr'), v.get('neg'), v.get('exc'))
    if 're' in v:
        s += '[' + flatten(v['re']) + '|' + flatten(v['im']) + ']'
    return s


def run(args, rep):
    rng = random.Random(args.seed)
    r = tlc.check_model('Fold', 'MC_Fold.cfg', workers=4)
    rep.add_model('Fold/MC_Fold.cfg', r)
    if r.violated:
        raise MachineryError('Fold.tla: M does not satisfy S (%s)' % r.violated)
    cells, _ = tlc.export('Fold', 'Export_Fold.cfg')
    rep.exhaustive = False
    exprs = []      # (id, expr text, rt, check_table)
    skipped_dangerous = 0
    for c in cells:
        for l in LITS[c['lc']]:
            for rr in LITS[c['rc']]:
                if dangerous(c['op'], l, rr):
                    skipped_dangerous += 1
                    continue
                e = '%s %s %s' % (l, SYM[c['op']], rr)
                table = not (l.startswith('(') or rr.startswith('('))
                exprs.append(('cell:%s:%s:%s:%s:%s' % (c['op'], c['lc'], c['rc'], l, rr), e, c['rt'], table))
    # nested expressions, seeded
    small = ['0', '1', '2', '3', '10', '0.0', '0.5', '1e308', 'True', 'False', '1j', '255', '5e-324', 'None', '7']
    ops = [o for o in SYM.values() if o not in ('**', '<<')]
    for k in range(1500 if args.tier == 'quick' else 20000):
        a, b, c, d = [rng.choice(small) for _ in range(4)]
        o1, o2, o3 = [rng.choice(ops) for _ in range(3)]
        shape = rng.choice(['(%s %s %s) %s %s', '%s %s (%s %s %s)', '%s %s %s %s %s', '-(%s %s %s) %s %s', '(%s %s %s) %s (%s %s %s)',
                            '%s %s -%s %s %s', '~(%s %s %s) %s %s'])
        n = shape.count('%s')
        if n == 5:
            e = shape % (a, o1, b, o2, c)
        else:
            e = shape % (a, o1, b, o2, c, o3, d)
        exprs.append(('nest:%d' % k, e, 'unknown', False))
    if args.tier == 'quick':
        cells_e = [x for x in exprs if x[0].startswith('cell:')]
        rng.shuffle(cells_e)
        exprs = cells_e[:5000] + [x for x in exprs if x[0].startswith('nest:')]
    ctxs = CTX[:6] if args.tier == 'quick' else CTX
    versions = ['3.12', '3.8', '2.7'] if args.tier == 'quick' else available_versions()
    versions = [v for v in versions if v in available_versions()]
    records = []
    meta = {}
    per_version = {}
    folded_count = 0
    for v in versions:
        todo = []
        for (eid, e, rt, table) in exprs:
            if v == '2.7' and ('@' in e):
                continue
            if v in ('3.6', '3.7') and False:
                continue
            for ci, (cn, ct) in enumerate(ctxs):
                if cn == 'fstr' and v == '2.7':
                    continue
                if not eid.startswith('cell:') and ci % 3 != (hash(eid) % 3):
                    continue
                if eid.startswith('cell:') and ci > 0 and (sum(map(ord, eid)) + ci) % 4 != 0:
                    continue          # every cell in the plain context, a quarter of them in each other context
                src = 'r = ' + (ct.replace('%s', '(' + e + ')') if cn != 'plain' else e) + '\n'
                todo.append((eid + '|' + cn + '|' + v, src, rt, table and cn == 'plain' and v != '2.7'))
            if v != '2.7' and eid.startswith('cell:') and (rt == 'bool' or sum(map(ord, eid)) % (40 if args.tier == 'quick' else 4) == 0):
                for cn, ct in INTERPLAY:
                    todo.append((eid + '|' + cn + '|' + v, ct.replace('%s', '(' + e + ')'), rt, False))
        reqs = []
        inter = set(cn for cn, _ct in INTERPLAY)
        for rid, src, rt, table in todo:
            b = inputs.b64(src.encode('utf-8'))
            whole = rid.rsplit('|', 2)[1] in inter
            reqs.append({'op': 'minify', 'id': 'on:' + rid, 'src_b64': b, 'as_bytes': False, 'opts': DEFAULTS_ON if whole else FOLD_ON})
            reqs.append({'op': 'minify', 'id': 'off:' + rid, 'src_b64': b, 'as_bytes': False, 'opts': DEFAULTS_NOFOLD if whole else FOLD_OFF})
        res = pool.run_requests(v, reqs, timeout=120)
        # evaluate input and output in the same interpreter, batched
        ev_reqs = []
        batch = []
        for rid, src, rt, table in todo:
            a = res.get('on:' + rid, {})
            if a.get('outcome') != 'return':
                continue
            batch.append((rid, src, base64.b64decode(a['out_b64']).decode('utf-8')))
        for k in range(0, len(batch), 200):
            chunk = batch[k:k + 200]
            mods = []
            for rid, src, out in chunk:
                mods.append(inputs.b64(src.encode('utf-8')))
                mods.append(inputs.b64(out.encode('utf-8')))
            ev_reqs.append({'op': 'evalmod', 'id': 'ev%d' % k, 'mods_b64': mods, '_chunk': [c[0] for c in chunk]})
        evres = pool.run_requests(v, [{kk: vv for kk, vv in q.items() if kk != '_chunk'} for q in ev_reqs], timeout=300)
        vals = {}
        for q in ev_reqs:
            a = evres.get(q['id'], {})
            if 'vals' not in a:
                continue
            for n, rid in enumerate(q['_chunk']):
                vals[rid] = (a['vals'][2 * n], a['vals'][2 * n + 1])
        n = 0
        for rid, src, rt, table in todo:
            on = res.get('on:' + rid, {})
            off = res.get('off:' + rid, {})
            if 'worker_error' in on or 'worker_error' in off or not on.get('compiles'):
                continue
            if on.get('outcome') != 'return':
                rec = {'id': rid, 'outcome': on.get('outcome', 'raise:?'), 'vin': '', 'vout': '', 'len_on': 0, 'len_off': 0, 'rt': rt,
                       'check_table': False, 'observed': ''}
            else:
                if rid not in vals or off.get('outcome') != 'return':
                    continue
                vi, vo = vals[rid]
                rec = {'id': rid, 'outcome': 'return', 'vin': flatten(vi), 'vout': flatten(vo), 'len_on': on['out_len'], 'len_off': off['out_len'],
                       'rt': rt, 'check_table': bool(table), 'observed': vi.get('exc') or vi.get('type')}
                if on['out_b64'] != off['out_b64']:
                    folded_count += 1
                    rep.nontrivial.add(sha(src))
            records.append(rec)
            meta[rid] = src
            n += 1
        per_version[v] = n
        rep.evaluations += n
    verdicts, judged = tlc.judge('Trace_Fold', 'Trace_Fold.cfg', records, tag='C07')
    rep.add_judged(judged)
    byid = {r['id']: r for r in records}
    table_errors = sorted(set('%s observed=%s predicted=%s' % (meta[rid].strip(), byid[rid]['observed'], byid[rid]['rt'])
                              for rid, vd in verdicts.items() if vd[0].startswith('machinery:')))
    if table_errors:
        raise MachineryError('Fold.tla ResultType disagrees with the interpreter on %d expressions: %s' % (len(table_errors), '; '.join(table_errors[:40])))
    for rid, vd in sorted(verdicts.items()):
        name, cn, v = rid.rsplit('|', 2)
        rep.violation(key='%s|%s|%s' % (meta[rid].strip(), cn, 'py2' if v == '2.7' else 'py3'), clause=vd[0],
                      what='%s python=%s in=%s out=%s len_on=%s len_off=%s' % (meta[rid].strip(), v, byid[rid]['vin'], byid[rid]['vout'], byid[rid]['len_on'], byid[rid]['len_off']),
                      replay={'kind': 'minify', 'version': v, 'src_b64': inputs.b64(meta[rid].encode('utf-8')), 'opts': FOLD_ON, 'as_bytes': False})
    for rec in records[:1] + [r for r in records if r['len_on'] < r['len_off']][:3]:
        rep.sample({'source': meta[rec['id']].strip(), 'value_in': rec['vin'], 'value_out': rec['vout'], 'len_folded': rec['len_on'], 'len_unfolded': rec['len_off']})
    rep.rule = ('cells = 13 operators x 17 x 17 operand classes exported by TLC, each with every combination of its concrete representative literals '
                '[quick: seeded 5 000], in the plain context and a quarter of them in each of %d wrapping contexts; plus seeded nested expressions; '
                'non-trivial = distinct sources whose output differs with folding on' % (len(ctxs) - 1))
    rep.extra.update({'records_per_version': per_version, 'cells': len(cells), 'expressions': len(exprs), 'folded_cases': folded_count,
                      'skipped_resource_heavy': skipped_dangerous,
                      'checker_cmd': 'tlc Fold.tla (MC_Fold.cfg); tlc Trace_Fold.tla over ndjson observations'})
    rep.assumptions += ['values are sampled per operand class; TLC never does arithmetic on them - identity of type/value/sign/exception is the '
                        'interpreter\'s own verdict (harness/worker.py op evalmod)',
                        'shift counts / exponents that would allocate gigabytes inside the folder are excluded from replay']


if __name__ == '__main__':
    main_wrapper(PID, run)
