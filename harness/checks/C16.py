# -*- coding: utf-8 -*-
"""C16 - shebang, source encoding and line endings are handled faithfully.

Decided by Encoding.tla (M |= S over all 672 in-language configurations of form x BOM x cookie x newline x shebang x
preserve) and Trace_Encoding.tla judging the real minify() on every configuration x body program on several
interpreter versions (strict tree identity computed by the interpreter), bytes-vs-text agreement, and the real
command line tool's bytes.
"""
import base64
import random

from ..common import main_wrapper, available_versions, sha, MachineryError
from .. import tlc, pool, local, cli_run
from ..local import ALL_OFF

PID = 'C16'

CODEC = {'none': 'utf-8', 'utf-8': 'utf-8', 'latin-1': 'latin-1', 'cp1252': 'cp1252', 'iso-8859-15': 'iso-8859-15', 'ascii': 'ascii',
         'utf-8-unix': 'utf-8', 'latin-1-dos': 'latin-1', 'ISO_8859_15': 'iso-8859-15', 'Latin_1': 'latin-1'}
COOKIE_LINE = {'utf-8': '# -*- coding: utf-8 -*-', 'latin-1': '# -*- coding: latin-1 -*-', 'cp1252': '# vim: set fileencoding=cp1252 :',
               'iso-8859-15': '#coding=iso-8859-15', 'ascii': '# coding: ascii',
               'utf-8-unix': '# -*- coding: utf-8-unix -*-', 'latin-1-dos': '# -*- coding: latin-1-dos -*-', 'ISO_8859_15': '# coding: ISO_8859_15',
               'Latin_1': '# vim: fileencoding=Latin_1'}
# the non-ASCII #! line uses characters whose bytes mean something else in the sibling codecs (0xA4 0xBC: latin-1 / iso-8859-15; 0x80 0x8C: cp1252)
NONASCII_SHEBANG = {'utf-8': u'#!/opt/pyth\u00f6n/\u20ac\u0152/bin/python', 'latin-1': u'#!/opt/pyth\u00f6n/\u00a4\u00bc/bin/python',
                    'cp1252': u'#!/opt/pyth\u00f6n/\u20ac\u0152/bin/python', 'iso-8859-15': u'#!/opt/pyth\u00f6n/\u20ac\u0152/bin/python',
                    'ascii': u'#!/opt/pyth\u00f6n/bin/python'}
SHEBANG = {'plain': '#!/usr/bin/env python', 'with-args': '#!/usr/bin/python -O -u  ', 'non-ascii': u'#!/opt/pyth\u00f6n/bin/python',
           'hash-only': '# !/usr/bin/python', 'space-before': ' #!/usr/bin/python',
           'with-formfeed': '#!/usr/bin/env -S python\x0c-O', 'with-x85': u'#!/usr/bin/python \x85 x', 'with-linesep': u'#!/usr/bin/python \u2028x \x1c y',
           'with-cookie': '#!/usr/bin/python # -*- coding: latin-1 -*-',
           # in latin-1 / cp1252 / iso-8859-15 these two characters are the bytes C3 A9, which are also the UTF-8 spelling of another character
           'lookalike': u'#!/opt/caf\u00c3\u00a9/bin/python'}

# body programs (LF, unicode); each must be encodable in the codecs it is used with
BODIES = [
    (u"x = 'caf\u00e9'\ny = b'caf\\xe9'\nprint(x, y)\n", 'latin'),
    (u"s = '''line one\nline two \u00e9\n'''\nt = 'a\\r\\nb'\nprint(s, t)\n", 'latin'),
    (u"a = 1 + \\\n    2\nb = ('x'\n     'y')\nif a:\n    c = [1,\n         2]\n", 'ascii'),
    (u"def f(p='\u00a4'):\n    '''doc \u00e9'''\n    return p * 2\nprint(f())\n", 'latin'),
    (u"x = '\u20ac \u65e5\u672c'\nd\u00e9j\u00e0 = 1\nprint(x, d\u00e9j\u00e0)\n", 'utf8'),
    (u"x = 'tab\there'\ny = 'nul\\x00'\nz = '\\xe9\\u20ac'\n", 'ascii'),
    (u"import os\nimport sys\nclass A(object):\n    def m(self):\n        return None\n", 'ascii'),
    (u"x = '#!not a shebang'\ny = '# -*- coding: latin-1 -*-'\n", 'ascii'),
    (u"", 'ascii'),
    (u"# only a comment \u00e9\n", 'latin'),
    (u"x = u'\u00e9'\n", 'latin'),
    (u"x = '\u00e9' '\u00e8'\ny = f'{x}\u00e9'\n", 'latin'),
    (u"\u00e9 = '\u00e9'\n", 'latin'),
    (u"x = '\\N{SNOWMAN}'\ny = '\\\n'\n", 'ascii'),
    (u"if 1:\n\tx = 1\n\tif x:\n\t\ty = '\u00e9'\n", 'latin'),
    (u"x = 1;y = 2;\nz = 3\n\n\n", 'ascii'),
]


def encodable(body_kind, cookie):
    codec = CODEC[cookie]
    if codec == 'utf-8':
        return True
    if codec == 'ascii':
        return body_kind == 'ascii'
    return body_kind in ('ascii', 'latin')


def build(cfg, body):
    """-> (text, bytes or None if not encodable, shebang line text or None)"""
    nl = {'LF': '\n', 'CRLF': '\r\n', 'CR': '\r'}[cfg['newline']]
    lines = []
    sb = None
    if cfg['shebang'] in SHEBANG:
        sb = SHEBANG[cfg['shebang']] if cfg['shebang'] != 'non-ascii' else NONASCII_SHEBANG[CODEC[cfg['cookie']]]
        lines.append(sb)
    if cfg['shebang'] == 'second-line-only':
        lines.append('x0 = 0')
        lines.append('#!/bin/sh')
    if cfg['cookie'] != 'none':
        if len(lines) > 1:
            # a cookie must be on line 1 or 2
            lines.insert(1, COOKIE_LINE[cfg['cookie']])
        else:
            lines.append(COOKIE_LINE[cfg['cookie']])
    text = nl.join(lines + body.split('\n')) if lines else nl.join(body.split('\n'))
    try:
        b = text.encode('latin-1' if cfg['shebang'] == 'with-cookie' else CODEC[cfg['cookie']])
    except UnicodeEncodeError:
        return text, None, sb
    if cfg['bom']:
        b = b'\xef\xbb\xbf' + b
        text = u'\ufeff' + text
    return text, b, sb


def cli_job(job):
    """real entry point on a file holding exactly these bytes -> (stdout bytes, exit)"""
    import os
    import shutil
    from ..common import outdir
    root = os.path.join(outdir('fs'), 'enc_%s_%d' % (sha(job['id'])[:12], os.getpid()))
    shutil.rmtree(root, ignore_errors=True)
    os.makedirs(root)
    path = os.path.join(root, 'm.py')
    with open(path, 'wb') as f:
        f.write(job['bytes'])
    flags = ['--no-combine-imports', '--no-remove-pass', '--no-hoist-literals', '--no-rename-locals', '--no-remove-object-base',
             '--no-convert-posargs-to-args', '--no-remove-explicit-return-none', '--no-remove-builtin-exception-brackets',
             '--no-constant-folding', '--no-remove-annotations']
    if not job['preserve']:
        flags.append('--no-preserve-shebang')
    res = cli_run.run_main([path] + flags, env_force=True)
    shutil.rmtree(root, ignore_errors=True)
    return {'id': job['id'], 'exit': res['exit'], 'stdout': res['stdout_bytes']}


def run(args, rep):
    rng = random.Random(args.seed)
    r = tlc.check_model('Encoding', 'MC_Encoding.cfg', workers=2)
    rep.add_model('Encoding/MC_Encoding.cfg', r)
    if r.violated:
        raise MachineryError('Encoding.tla: M does not satisfy S (%s)' % r.violated)
    cfgs, _ = tlc.export('Encoding', 'Export_Encoding.cfg')
    rep.exhaustive = True
    bodies = BODIES[:6] if args.tier == 'quick' else BODIES
    versions = ['3.12', '3.8', '2.7'] if args.tier == 'quick' else available_versions()
    versions = [v for v in versions if v in available_versions()]
    opts = dict(ALL_OFF)
    records = []
    meta = {}
    skipped_unencodable = 0
    per_version = {}
    cli_jobs = []
    for v in versions:
        reqs = []
        plan = []
        for ci, cfg in enumerate(cfgs):
            for bi, (body, kind) in enumerate(bodies):
                if not encodable(kind, 'latin-1' if cfg['shebang'] == 'with-cookie' else cfg['cookie']):
                    skipped_unencodable += 1
                    continue
                if v == '2.7' and (cfg['form'] == 'text' or kind == 'utf8' or 'f\'' in body or u'\u00e9 =' in body):
                    continue
                text, b, sb = build(cfg, body)
                if b is None:
                    skipped_unencodable += 1
                    continue
                o = dict(opts)
                o['preserve_shebang'] = bool(cfg['preserve'])
                rid = 'c%d-b%d-%s' % (ci, bi, v)
                if cfg['form'] == 'bytes':
                    src = b
                    req = {'op': 'minify', 'id': rid, 'src_b64': base64.b64encode(src).decode(), 'as_bytes': True, 'opts': o, 'strict': True}
                else:
                    src = text.encode('utf-8')
                    req = {'op': 'minify', 'id': rid, 'src_b64': base64.b64encode(src).decode(), 'as_bytes': False, 'decode': 'utf-8',
                           'opts': o, 'strict': True}
                reqs.append(req)
                plan.append((rid, ci, bi, sb, b))
        res = pool.run_requests(v, reqs, timeout=120)
        outs = {}
        for rid, ci, bi, sb, b in plan:
            a = res.get(rid)
            if a is None or 'worker_error' in a:
                continue
            outs[(ci, bi)] = a
        n = 0
        # pair: same configuration with the other form
        index = {}
        for ci, cfg in enumerate(cfgs):
            index[tuple(sorted((k, str(val)) for k, val in cfg.items() if k != 'form')) + (cfg['form'],)] = ci
        for rid, ci, bi, sb, b in plan:
            a = outs.get((ci, bi))
            if a is None:
                continue
            cfg = cfgs[ci]
            out = base64.b64decode(a['out_b64']).decode('utf-8', 'surrogatepass') if a.get('out_b64') else None
            first = out.split('\n')[0] if out is not None else ''
            other_form = 'text' if cfg['form'] == 'bytes' else 'bytes'
            oc = index.get(tuple(sorted((k, str(val)) for k, val in cfg.items() if k != 'form')) + (other_form,))
            pair = outs.get((oc, bi)) if oc is not None else None
            has_pair = bool(pair is not None and pair.get('compiles') and a.get('compiles') and pair.get('outcome') == 'return'
                            and a.get('outcome') == 'return' and not cfg['bom'])
            rec = {'id': rid, 'cfg': cfg, 'input_compiles': bool(a.get('compiles')), 'outcome': a.get('outcome', 'raise:?'),
                   'strict_equal': bool(a.get('strict_equal', False)),
                   'first_line_exact': bool(sb is not None and first == sb),
                   'starts_with_shebang': bool(out is not None and out.startswith('#!')),
                   'has_pair': has_pair, 'pair_equal': bool(has_pair and pair.get('out_b64') == a.get('out_b64')),
                   'has_cli': False, 'cli_utf8': True, 'cli_equals_api': True}
            meta[rid] = (cfg, bi, a, b if cfg['form'] == 'bytes' else None, v)
            if v == '3.12' and cfg['form'] == 'bytes' and a.get('compiles') and a.get('outcome') == 'return':
                cli_jobs.append({'id': rid, 'bytes': b, 'preserve': bool(cfg['preserve']), 'api': base64.b64decode(a['out_b64'])})
            records.append(rec)
            n += 1
            if a.get('compiles') and a.get('outcome') == 'return' and (cfg['cookie'] not in ('none', 'utf-8') or cfg['newline'] != 'LF' or cfg['bom'] or cfg['shebang'] != 'none'):
                rep.nontrivial.add(sha(rid.rsplit('-', 1)[0]))
        per_version[v] = n
        rep.evaluations += n
    # real command line tool on the bytes configurations (3.12): bytes written == utf-8(api)
    byrec = {r['id']: r for r in records}
    if cli_jobs:
        if args.tier == 'quick':
            rng.shuffle(cli_jobs)
            cli_jobs = cli_jobs[:600]
        api = {j['id']: j.pop('api') for j in cli_jobs}
        outs = local.pmap(cli_job, cli_jobs, chunksize=8)
        for o in outs:
            rec = byrec[o['id']]
            rec['has_cli'] = True
            try:
                o['stdout'].decode('utf-8')
                rec['cli_utf8'] = True
            except UnicodeDecodeError:
                rec['cli_utf8'] = False
            rec['cli_equals_api'] = (o['exit'] == 0 and o['stdout'] == api[o['id']])
        rep.evaluations += len(outs)
    verdicts, judged = tlc.judge('Trace_Encoding', 'Trace_Encoding.cfg', records, tag='C16')
    rep.add_judged(judged)
    for rid, vd in sorted(verdicts.items()):
        cfg, bi, a, b, v = meta[rid]
        shape = 'form=%s bom=%s cookie=%s newline=%s shebang=%s preserve=%s' % (cfg['form'], cfg['bom'], cfg['cookie'], cfg['newline'], cfg['shebang'], cfg['preserve'])
        d14 = (cfg['form'] == 'bytes' and cfg['shebang'] == 'non-ascii' and cfg['cookie'] in ('latin-1', 'cp1252', 'iso-8859-15')
               and not cfg['bom'] and cfg['preserve'])
        d14_27 = (v == '2.7' and cfg['shebang'] == 'non-ascii' and cfg['preserve'] and not cfg['bom'])
        d23 = cfg['shebang'] == 'with-cookie' and cfg['preserve'] and vd[0] == 'c16:program-or-constants-changed'
        key = ('D14:' if (d14 or d14_27) and 'Unicode' in vd[0] else 'D23:' if d23 else '') + shape + ' python=' + v
        rep.violation(key=key, clause=vd[0], what='%s body#%d %s %s' % (shape + ' python=' + v, bi, a.get('msg', ''), a.get('strict_diff', '')),
                      replay={'kind': 'minify', 'version': v, 'src_b64': base64.b64encode(b).decode() if b is not None else '',
                              'opts': dict(opts, preserve_shebang=bool(cfg['preserve'])), 'strict': True, 'cfg': cfg})
    for rec in records[:2] + records[len(records) // 2:len(records) // 2 + 2]:
        rep.sample({'cfg': rec['cfg'], 'observed': {k: rec[k] for k in ('input_compiles', 'outcome', 'strict_equal', 'first_line_exact', 'starts_with_shebang', 'pair_equal')}})
    rep.rule = ('all 672 in-language configurations exported by TLC x body programs with non-ASCII strings/bytes/identifiers, continuation '
                'lines and multi-line strings, on each listed interpreter; non-trivial = distinct (configuration, body) pairs that are accepted '
                'by the interpreter, minified, and are not plain UTF-8/LF/no-shebang')
    rep.extra.update({'records_per_version': per_version, 'configurations': len(cfgs), 'bodies': len(bodies),
                      'cli_runs': len(cli_jobs), 'skipped_not_encodable_in_codec': skipped_unencodable,
                      'checker_cmd': 'tlc Encoding.tla (MC_Encoding.cfg); tlc Trace_Encoding.tla over ndjson observations'})
    rep.assumptions += ['codecs, tokenizer newline handling and BOM/cookie detection are CPython\'s',
                        'BOM + shebang is unconstrained (the source does not start with #!)',
                        'on 2.7 only bytes input is exercised']


if __name__ == '__main__':
    main_wrapper(PID, run)
