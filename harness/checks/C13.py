"""C13 - the command line tool writes exactly what the API would return for the documented meaning of its flags.

Decided by
  * CliFlags.tla: the transcribed `dest=` wiring equals the documented Meaning for all 2^19 flag sets (TLC, ASSUME),
    and each flag moves only its own option;
  * Trace_CliFlags.tla: the keyword arguments the real parse_args()+do_minify() pass to a recording minify(), for
    singles, pairs, the annotation group exhaustively and seeded random sets [thorough: all 2^19], and the split
    of comma separated / repeated preserve lists;
  * Trace_Cli.tla: end-to-end runs of the real entry point (file, --output, --in-place, stdin) under flag sets whose
    expected API call is Meaning(F) as printed by TLC, plus every documented rejection (nothing written).
"""
import itertools
import os
import random
import shutil

from ..common import main_wrapper, sha, outdir, MachineryError
from .. import tlc, local, cli_run
from . import _cli

PID = 'C13'

FLAGS = ["no-combine-imports", "no-remove-pass", "remove-literal-statements", "no-hoist-literals",
         "no-rename-locals", "rename-globals", "no-remove-object-base", "no-convert-posargs-to-args",
         "no-preserve-shebang", "remove-asserts", "remove-debug", "no-remove-explicit-return-none",
         "no-remove-builtin-exception-brackets", "no-constant-folding",
         "no-remove-annotations", "no-remove-variable-annotations", "no-remove-return-annotations",
         "no-remove-argument-annotations", "remove-class-attribute-annotations"]
ANN = FLAGS[14:]

# a source on which every option has a visible effect
RICH = b'''#!/usr/bin/env python
"""module docstring"""
import os
import sys
from typing import NamedTuple
from typing import Optional

CONSTANT_VALUE: int = 60 * 60 * 24
other_global = 'repeated literal value'


class Base(object):
    attribute: int = 3
    other: str

    def method(self, first_argument: int, /, second_argument: str = 'repeated literal value') -> Optional[str]:
        """method docstring"""
        local_variable: int = first_argument + CONSTANT_VALUE
        unassigned: str
        assert local_variable, 'repeated literal value'
        if __debug__:
            print('debugging', 'repeated literal value')
        if local_variable > 100:
            pass
        if second_argument is None:
            raise ValueError()
        'literal statement'
        return None


def function(long_parameter_name, another_parameter=None):
    pass
    return long_parameter_name


print(Base().method(1), function(2), other_global, os.sep, sys.argv[1:], NamedTuple)
'''

PL_SPELLINGS = [
    [],
    [['local_variable']],
    [['local_variable', 'first_argument']],
    [['local_variable'], ['first_argument']],
    [['local_variable', '', 'first_argument']],
    [[' local_variable', 'first_argument ']],
    [['local_variable', ''], ['', 'unassigned']],
]
PG_SPELLINGS = [
    [],
    [['function']],
    [['function', 'Base']],
    [['function'], ['Base', 'other_global']],
    [[' function ', '', 'CONSTANT_VALUE']],
]


def argv_of(flags, pl_occ, pg_occ):
    a = ['--' + f for f in flags]
    for occ in pl_occ:
        a += ['--preserve-locals', ','.join(occ)]
    for occ in pg_occ:
        a += ['--preserve-globals', ','.join(occ)]
    return a


def strip_occ(occ):
    return [[it.strip() for it in o] for o in occ]


def kwargs_job(job):
    """parse_args() + do_minify() with a recording stand-in for minify()"""
    import sys
    import python_minifier.__main__ as cli
    seen = []

    def rec(source, **kw):
        # like minify() itself, read the preserve lists once (whatever kind of iterable they are)
        kw = dict(kw)
        for key in ('preserve_locals', 'preserve_globals'):
            v = kw.get(key)
            if v is not None and not isinstance(v, str):
                kw[key] = list(v)
        seen.append(kw)
        return ''
    saved = cli.minify
    cli.minify = rec
    old_argv, old_err = sys.argv, sys.stderr
    import io
    sys.argv = ['pyminify', 'x.py'] + argv_of(job['flags'], job['pl_occ'], job['pg_occ'])
    sys.stderr = io.StringIO()
    out = {'id': job['id'], 'flags': job['flags'], 'pl_occ': strip_occ(job['pl_occ']), 'pg_occ': strip_occ(job['pg_occ']),
           'called': False, 'exit': 0, 'kwargs': {}, 'pl_seen': [], 'pg_seen': [], 'pl_seen2': [], 'pg_seen2': [], 'calls': 0}
    try:
        try:
            a = cli.parse_args()
            cli.do_minify(b'', 'x.py', a)
            cli.do_minify(b'', 'y.py', a)           # a run over several modules calls do_minify once per module with the same parsed arguments
        except SystemExit as e:
            out['exit'] = e.code if isinstance(e.code, int) else 1
        except BaseException as e:  # noqa
            out['exit'] = 1
            out['exc'] = type(e).__name__
    finally:
        cli.minify = saved
        sys.argv, sys.stderr = old_argv, old_err
    if seen:
        kw = seen[0]
        out['called'] = True
        k = {}
        for o in ['combine_imports', 'remove_pass', 'remove_literal_statements', 'hoist_literals', 'rename_locals', 'rename_globals',
                  'remove_object_base', 'convert_posargs_to_args', 'preserve_shebang', 'remove_asserts', 'remove_debug',
                  'remove_explicit_return_none', 'remove_builtin_exception_brackets', 'constant_folding']:
            v = kw.get(o, 'missing')
            k[o] = v if isinstance(v, bool) else 'missing'
        ra = kw.get('remove_annotations')
        for o in ['remove_variable_annotations', 'remove_return_annotations', 'remove_argument_annotations',
                  'remove_class_attribute_annotations']:
            if isinstance(ra, bool):
                k[o] = ra
            else:
                v = getattr(ra, o, 'missing')
                k[o] = v if isinstance(v, bool) else 'missing'
        out['kwargs'] = k
        out['pl_seen'] = list(kw.get('preserve_locals') or [])
        out['pg_seen'] = list(kw.get('preserve_globals') or [])
        # the second module of the run must be given the same names
        kw2 = seen[1] if len(seen) > 1 else {}
        out['pl_seen2'] = list(kw2.get('preserve_locals') or [])
        out['pg_seen2'] = list(kw2.get('preserve_globals') or [])
        out['calls'] = len(seen)
    return out


def e2e_job(job):
    """one end-to-end run of the real entry point on RICH under a flag set; expected = api(Meaning(F))"""
    mode, via_stdin, flags = job['mode'], job['stdin'], job['flags']
    root = os.path.join(outdir('fs'), 'e_%s_%d' % (sha(job['id'])[:12], os.getpid()))
    shutil.rmtree(root, ignore_errors=True)
    os.makedirs(root)
    path = os.path.join(root, 'rich.py')
    with open(path, 'wb') as f:
        f.write(RICH)
    outpath = os.path.join(root, 'OUT.min')
    argv = ['-' if via_stdin else path] + argv_of(flags, job['pl_occ'], job['pg_occ'])
    if mode == 'in_place':
        argv.append('--in-place')
    elif mode == 'output':
        argv += ['--output', outpath]
    res = cli_run.run_main(argv, stdin_bytes=RICH if via_stdin else b'', env_force=False)
    m = job['meaning']
    kw = {k: m[k] for k in m if not k.endswith('_annotations')}
    kw['remove_annotations'] = {k: m[k] for k in m if k.endswith('_annotations')}
    kw['preserve_locals'] = list(job['pl_names'])
    kw['preserve_globals'] = list(job['pg_names'])
    api = cli_run.api_bytes(RICH, kw)
    with open(path, 'rb') as f:
        post = f.read()

    def classify(b):
        if api is not None and b == api:
            return {'what': 'min', 'file': 1, 'len': len(b)}
        if b == RICH:
            return {'what': 'pre', 'file': 1, 'len': len(b)}
        return {'what': 'other', 'file': 0, 'len': len(b)}
    what = classify(post)['what']
    outw = {'what': 'none', 'file': 0, 'len': 0}
    if os.path.exists(outpath):
        with open(outpath, 'rb') as f:
            outw = classify(f.read())
    so = res['stdout_bytes']
    sout = classify(so) if so else {'what': 'none', 'file': 0, 'len': 0}
    opened_w = any(os.path.realpath(p) == os.path.realpath(path) and ('w' in md) for p, md in res['opens'])
    rejected = job['rejected']
    rec = {'id': job['id'], 'shape': 'stdin' if via_stdin else 'one_file', 'mode': mode, 'force': False,
           'files': [{'reach': 'named', 'class': 'shrinks', 'post': what, 'readlen': len(RICH),
                      'apilen': len(api) if api is not None else 0, 'api_is_pre': False, 'opened_w': opened_w,
                      'opened_r': not via_stdin}],
           'exit': int(res['exit']), 'exit2': int(res['exit_script']), 'exc': res['exc'], 'outw': outw, 'sout': sout, 'order': [1], 'listed': 0}
    if rejected:
        rec['shape'] = 'stdin_and_file'      # judged as a documented rejection: non-zero exit and nothing written
        rec['order'] = []
    shutil.rmtree(root, ignore_errors=True)
    return rec


def flag_sets(tier, rng):
    sets = [[]] + [[f] for f in FLAGS]
    sets += [list(p) for p in itertools.combinations(FLAGS, 2)]
    for r in range(3, len(ANN) + 1):
        sets += [list(p) for p in itertools.combinations(ANN, r)]
    n = 2000 if tier == 'quick' else 0
    for _ in range(n):
        sets.append([f for f in FLAGS if rng.random() < 0.5])
    if tier != 'quick':
        sets = [[FLAGS[b] for b in range(19) if (mask >> b) & 1] for mask in range(1 << 19)]
    return sets


def run(args, rep):
    rng = random.Random(args.seed)
    # (1) static: wiring == documentation for all 2^19 sets, and the run model
    r = tlc.check_model('CliFlags', 'MC_CliFlags.cfg', workers=1, timeout=3600)
    rep.add_model('CliFlags/MC_CliFlags.cfg (ASSUME FlagsMeanDocs, OwnOptionOnly over SUBSET Flags: 524288 sets)', r)
    _cli.model(rep, 'quick')

    # (2) recorded kwargs of the real parse_args + do_minify
    sets = flag_sets(args.tier, rng)
    jobs = []
    for k, fs in enumerate(sets):
        jobs.append({'id': 'k%d' % k, 'flags': fs, 'pl_occ': PL_SPELLINGS[k % len(PL_SPELLINGS)] if k < 400 else [],
                     'pg_occ': PG_SPELLINGS[k % len(PG_SPELLINGS)] if k < 400 else []})
    obs = local.pmap(kwargs_job, jobs, chunksize=256)
    rep.evaluations += len(obs)
    verdicts, judged = tlc.judge('Trace_CliFlags', 'Trace_CliFlags.cfg', obs, tag='C13k')
    rep.add_judged(judged)
    byid = {o['id']: o for o in obs}
    for o in obs:
        rep.nontrivial.add(sha(','.join(o['flags'])))
    for rid, v in sorted(verdicts.items()):
        o = byid[rid]
        rep.violation(key='flags:%s|%s' % (','.join(o['flags']), v[0]), clause=v[0],
                      what='flags=%s kwargs_seen=%s preserve=%s/%s' % (o['flags'], o['kwargs'], o['pl_seen'], o['pg_seen']),
                      replay={'kind': 'cli-flags', 'flags': o['flags'], 'pl_occ': o['pl_occ'], 'pg_occ': o['pg_occ'], 'observed': o})
    rep.sample({'flags': obs[20]['flags'], 'kwargs_seen': obs[20]['kwargs']})

    # (3) end to end under Meaning(F) printed by TLC
    e2e_sets = [[]] + [[f] for f in FLAGS] + [list(p) for p in itertools.combinations(ANN, 2)]
    e2e_sets += [['remove-class-attribute-annotations', 'no-remove-annotations'], ['remove-class-attribute-annotations', 'no-remove-annotations', 'rename-globals']]
    for _ in range(60 if args.tier == 'quick' else 1500):
        e2e_sets.append([f for f in FLAGS if rng.random() < 0.35])
    ask = []
    for k, fs in enumerate(e2e_sets):
        ask.append({'id': 'e%d' % k, 'flags': fs, 'pl_occ': strip_occ(PL_SPELLINGS[k % len(PL_SPELLINGS)]),
                    'pg_occ': strip_occ(PG_SPELLINGS[k % len(PG_SPELLINGS)])})
    meaning, _n = tlc.judge('Trace_CliFlags', 'Trace_CliFlags.cfg', ask, tag='C13m')
    if len(meaning) != len(ask):
        raise MachineryError('TLC printed Meaning for %d of %d flag sets' % (len(meaning), len(ask)))
    jobs = []
    for k, fs in enumerate(e2e_sets):
        m, rejected, pln, pgn = meaning['e%d' % k]
        for mode, via_stdin in (('stdout', False), ('output', False), ('in_place', False), ('stdout', True), ('output', True)):
            jobs.append({'id': 'e%d|%s|%s' % (k, mode, via_stdin), 'flags': fs, 'mode': mode, 'stdin': via_stdin,
                         'pl_occ': PL_SPELLINGS[k % len(PL_SPELLINGS)], 'pg_occ': PG_SPELLINGS[k % len(PG_SPELLINGS)],
                         'meaning': m, 'rejected': rejected, 'pl_names': pln, 'pg_names': pgn})
    obs2 = local.pmap(e2e_job, jobs, chunksize=4)
    rep.evaluations += len(obs2)
    v2, j2 = tlc.judge('Trace_Cli', 'Trace_Cli.cfg', obs2, tag='C13e')
    rep.add_judged(j2)
    by2 = {o['id']: o for o in obs2}
    jb = {j['id']: j for j in jobs}
    for rid, v in sorted(v2.items()):
        o = by2[rid]
        rep.violation(key='e2e:%s|%s|%s' % (','.join(jb[rid]['flags']), rid.split('|', 1)[1], v[0]), clause=v[0],
                      what='flags=%s mode=%s stdin=%s exit=%s file=%s out=%s stdout=%s' % (
                          jb[rid]['flags'], jb[rid]['mode'], jb[rid]['stdin'], o['exit'], o['files'][0]['post'], o['outw']['what'], o['sout']['what']),
                      replay={'kind': 'cli-e2e', 'flags': jb[rid]['flags'], 'mode': jb[rid]['mode'], 'stdin': jb[rid]['stdin'], 'observed': o})
    distinct_outputs = len(set((o['outw']['len'], o['sout']['len'], o['files'][0]['apilen']) for o in obs2))
    rep.sample({'flags': jobs[7]['flags'], 'mode': jobs[7]['mode'], 'expected_kwargs_from_spec': jobs[7]['meaning'],
                'observed': {k: by2[jobs[7]['id']][k] for k in ('exit', 'outw', 'sout')}})

    # (4) the documented rejections of path/mode combinations (Cli.tla configurations + stdin shapes)
    cfgs, total = _cli.configs('quick', rng, want=lambda c: c['shape'] != 'one_file' or c['mode'] != 'in_place')
    cfgs = cfgs[:1500] + _cli.extra_configs()
    _cli.run_and_judge(rep, cfgs, 'c13:', args.seed, 'C13r')
    rep.exhaustive = (args.tier != 'quick')
    rep.rule = ('flag sets: empty, singles, pairs, the annotation group exhaustively, seeded random [thorough: all 2^19] through the real '
                'parse_args()+do_minify(); end-to-end runs on a source where every option is visible, in five output modes, expected result '
                '= api(Meaning(F)) with Meaning printed by TLC; non-trivial = distinct flag sets')
    rep.extra.update({'flag_sets_recorded': len(sets), 'end_to_end_runs': len(obs2), 'distinct_end_to_end_output_sizes': distinct_outputs,
                      'checker_cmd': 'tlc CliFlags.tla; tlc Trace_CliFlags.tla; tlc Trace_Cli.tla'})
    rep.assumptions += ['Meaning() is transcribed from --help and docs/source/transforms/*.rst (DESIGN.md appendix D)',
                        'whitespace-only preserve items yield an empty name, which cannot match any binding and is ignored']


if __name__ == '__main__':
    main_wrapper(PID, run)
