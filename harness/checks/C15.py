"""C15 - in-place minification touches only the Python files it was pointed at and never corrupts one.

Decided by Cli.tla (M |= S: every tree of <= 3 [quick] / <= 4 [thorough] files, every reach x class assignment,
every argument shape, mode, failure position and visiting order) and Trace_Cli.tla judging runs of the real
entry point on every configuration TLC enumerated (all 2-file configurations, a seeded sample of the
3-file ones), with unreadable / read-only faults injected through open()."""
import random

from ..common import main_wrapper
from . import _cli

PID = 'C15'


def run(args, rep):
    rng = random.Random(args.seed)
    _cli.model(rep, args.tier)
    cfgs, total = _cli.configs(args.tier, rng)
    cfgs += [x for x in _cli.extra_configs() if x[0].startswith('p-')]
    obs, verdicts = _cli.run_and_judge(rep, cfgs, 'c15:', args.seed, 'C15')
    rep.exhaustive = False
    rep.rule = ('configurations = initial states of Cli.tla exported by TLC (files x reach x class x shape x mode x force); every '
                '2-file configuration and a seeded sample of the 3-file ones is materialised as a real tree (suffix and placement '
                'spellings vary with the seed, including a symlinked directory) and run through python_minifier.__main__.main(); '
                'plus path-argument spellings outside the enumeration: --output naming the source itself (directly / through a symlink) and targets reached twice; '
                'non-trivial = distinct configurations in which something was written or the run failed')
    rep.extra.update({'configurations_enumerated_by_tlc': total, 'configurations_run': len(cfgs),
                      'checker_cmd': 'tlc Cli.tla (MC_Cli.cfg / MC_Cli4.cfg); tlc Trace_Cli.tla over ndjson run records'})
    rep.assumptions += ['faults (unreadable, read-only) are injected through open() because root ignores permission bits',
                        'a process crash between open(path, "wb") and write() is outside the property\'s fault list (model only: TruncOnlyCurrent)',
                        'the run is in-process (main() with argv/stdio patched); an uncaught exception counts as exit status 1']


if __name__ == '__main__':
    main_wrapper(PID, run)
