"""C02 - printed source re-parses to exactly the same syntax tree, on every supported interpreter.

Decided by Printer.tla / PrinterS.tla (the printer's parenthesisation decisions M against the grammar's levels S for every
(slot, child kind) cell; S itself validated cell by cell against CPython's parser) and Trace_Printer.tla judging round trips
through the real ModulePrinter, computed strictly by each interpreter:
  * every cell and [sampled | all] depth-2 chains, rendered as source text,
  * numeric / string literal boundary values in operator contexts,
  * whole modules: pinned corpus, each version's grammar test files, the shape bank,
  * minify() with every transform off (strict identity with the input tree);
and by TokensS.tla / Tokens.tla / Trace_Tokens.tla (the lexical rule for neighbouring tokens S, the TokenPrinter's blank rule M, S validated
against the tokenizers / parsers of five interpreters) judging every (previous token, separator, token) triple the real TokenPrinter emitted
while printing all of the above (recorded by an outside wrapper of its methods).
"""
import base64
import random

from ..common import main_wrapper, available_versions, sha, MachineryError
from .. import tlc, pool, corpus, inputs, exprspace as E
from ..local import ALL_OFF
from . import _tokens

PID = 'C02'

NUMS = ['0', '1', '9', '10', '15', '16', '255', '256', '1000', '99999', '100000', '1000000', '4294967295', '4294967296',
        '9223372036854775807', '9223372036854775808', '123456789012345678901234567890', '0x10', '0o17', '0b11', '0xdeadbeefcafe',
        '0.0', '1.0', '10.0', '100.0', '1000.0', '100000.0', '1e5', '1e16', '1e22', '1e23', '1.5e300', '1e308', '1e309', '1e-5', '0.0001',
        '0.00001', '1e-320', '5e-324', '1e-400', '.5', '5.', '1.23456789012345e-7', '123456.789', '1j', '0j', '1.5j', '1e5j', '1e309j',
        '1e-400j', '100000j', '0.1j', '10000000000000000000000j', '1_000', '0x_ff', '1_0.0_1', '0.1e-2j', '1e+10', '1E5', '0XFF', '1J']
NUM_CTX = ['x=%s', 'x=-%s', 'x=+%s', 'x=(%s).real', 'x=%s if a else %s', 'x=a if %s else b', 'x=[i for i in a if %s]', 'x=a[%s:%s:%s]',
           'x=a in %s', 'x=%s in a', 'x=not %s', 'x=a and %s or %s', 'x=lambda:%s', 'x=%s,', 'x={%s:%s}', 'x=%s**%s', 'x=-%s**-%s', 'x=f(*%s)',
           'x=%s is not %s', 'def f():\n return %s', 'def f():\n yield %s', 'assert %s,%s', 'for i in %s:pass', 'x=a<%s>%s', 'x=%s .real',
           'x=%s==%s!=%s', 'x=a*%s/%s//%s%%%s', 'del a[%s]', 'x=a if b else%s', 'x=(a)if(b)else(%s)', 'print(%s or%s)', 'x=%s or a', 'x=%sif a else b',
           'x=[%s for i in a]', 'x={%s}', 'x=a[%s]', 'x=f(%s)', 'x=f(k=%s)', 'x=--%s', 'x=~%s', 'x=-(%s)', 'x=(-%s)**2', 'x=-%s.real', 'x=%s@a',
           'match a:\n case %s:pass', 'match a:\n case -%s:pass', 'x=f"{%s}"', 'x=f"{a:{%s}}"']
STRS = ["'a'", '"a"', "'\"'", '"\'"', "'\\'\"'", "'''a\nb'''", "'a\\nb'", "'\\\\'", "'\\x00'", "'\\x7f'", "'\\xff'", "'\\u1234'", "'\\U0001f600'",
        "'\u00e9'", "'\\t'", "'\\r'", "''", "b'a'", "b'\\xff'", "b'\\x00'", "b'\"'", 'b"\'"', "b''", "'\\ud800'", "'a' 'b'", "'{'", "'}'", "'{}'",
        "r'\\d'", "br'\\d'", "u'a'", "'\\N{BULLET}'", "'\\\n'", "'\\a\\b\\f\\v'", "'\\0'", "'\\1'", "'\\777'", "'\x7f'", "'\\x1b[0m'", "'%s' % a"]
STR_CTX = ['x=%s', 'x=a if %s else b', 'x=%s if a else b', 'x=a if b else %s', 'x=a in %s', 'x=%s in a', 'x=not %s', 'x=a or %s', 'x=lambda:%s',
           'x=[i for i in %s]', 'x=f(%s)', 'x=%s.join(a)', 'x=%s[0]', 'x=f"{%s}"', 'x=f"{a!r:{%s}}"', 'x=f"a{%s}b"', "x=f'{%s}'", 'x={%s:%s}',
           'def f():\n return %s', 'def f():\n yield %s', 'assert %s,%s', 'for i in %s:pass', 'import a\n%s', 'x=a is %s', 'x=a,%s', 'print(a,%s)',
           'match a:\n case %s:pass', 'x=*a,%s', 'class A(metaclass=%s):pass', 'x:%s=1', 'def f(a:%s=%s)->%s:pass', 'raise a from %s', 'del a[%s]',
           'x=await_ if%selse b']


def number_sweep():
    """float literals across the exponent range with 1, 15, 16 and 17 significant digits (shortest repr), their neighbours, the integers around
    the powers of ten and two where float and int spellings meet, and complex counterparts - each in a plain and an operator context"""
    vals = []
    mants = ['1', '1.5', '9.9', '1.2345678901234567', '9.999999999999999', '1.0000000000000002', '2.2250738585072014', '4.9406564584124654', '1.7976931348623157',
             '5.0000000000000001', '8.8817841970012523', '1.2345678901234568', '7.0000000000000009']
    for e in list(range(-30, 31)) + [-324, -323, -308, -307, -100, 100, 300, 307, 308]:
        for m in mants:
            try:
                f = float('%se%d' % (m, e))
            except (ValueError, OverflowError):
                continue
            if f != f or f in (float('inf'), float('-inf')):
                continue
            vals.append(repr(f))
    for e in range(0, 25):
        for d in (-1, 0, 1):
            vals.append(str(10 ** e + d))
            vals.append(repr(float(10 ** e + d)))
    for e in (15, 16, 31, 32, 52, 53, 54, 63, 64, 100):
        for d in (-1, 0, 1):
            vals.append(str(2 ** e + d))
            vals.append(repr(float(2 ** e + d)))
    vals = sorted(set(v for v in vals if not v.startswith('-')))
    out = []
    for v in vals:
        out.append(('numsweep:%s' % v, 'x=%s\ny=[%s,-%s,%sj]\nz=a if %s else b\nw=%s .real\n' % (v, v, v, v, v, v)))
    # negative literals: one token with its sign for the 2.x parser (Num(-0.0)), a unary minus on 3.x
    for v in ['0.0', '0.', '.0', '0e0', '0', '0j', '0.0j', '1.5', '1e5', '1e-5', '1000000.0', '5e-324', '1e308', '1e999', '1', '255', '4294967296', '1.5j', '0x10', '1e16',
              '12345678901234567.0', '0.1', '100.0', '1e22', '1e23']:
        out.append(('negnum:%s' % v, 'x=-%s\ny=[-%s,-(%s),--%s,-%s**2,(-%s)**2]\nz=a if -%s else b\nw=(-%s).real\n' % ((v,) * 8)))
    return out


def literal_modules():
    out = number_sweep()
    for ci, c in enumerate(NUM_CTX):
        for v in NUMS:
            out.append(('num:%d:%s' % (ci, v), c.replace('%%', '\0').replace('%s', v).replace('\0', '%') + '\n'))
    for ci, c in enumerate(STR_CTX):
        for v in STRS:
            out.append(('str:%d:%s' % (ci, v), c.replace('%s', v) + '\n'))
    out += debug_specifier_modules()
    return out


def debug_specifier_modules():
    """f-strings whose literal text ends with `<text>=` in front of a replacement field - the printer may abbreviate that to the 3.8+ form
    f'{expr=}' - for every pair of a text and a value expression taken from classes of literals that compare equal but are different
    programs (3, 3.0, True, 1, 1.0, 1+0j, ...), names, and with every conversion / a format spec"""
    texts = ['3', '3.0', '3.', ' 3', '3 ', '(3)', '1', '1.0', 'True', '1+0j', '1e0', '0x1', '0', '-0', '0.0', '-0.0', 'False', "'a'", '"a"', 'a', 'a ', 'a.b', 'a[0]', 'a+1', 'a +1',
             'None', 'x=1', '', '=']
    values = ['3', '3.0', '1', '1.0', 'True', '(1+0j)', '0', '-0', '0.0', '-0.0', 'False', "'a'", 'a', 'a.b', 'a[0]', 'a+1', 'None']
    out = []
    for ti, t in enumerate(texts):
        for vi, v in enumerate(values):
            for ci, conv in enumerate(('!r', '', '!s', '!a', '!r:>4', ':>4')):
                if '"' in t + v:
                    src = "x=f'%s={%s%s}'\n" % (t, v, conv)
                else:
                    src = 'x=f"%s={%s%s}"\n' % (t, v, conv)
                out.append(('dbgspec:%d:%d:%d' % (ti, vi, ci), src))
    return out


def chains(cells, tier, rng):
    """depth-1 cells and depth-2 chains as (id, text); text is the fully parenthesised (intended) rendering"""
    out = []
    inlang = {}
    for c in cells:
        inlang.setdefault(c['slot'], set()).add(c['kind'])
    for c in cells:
        tc = c['kind'] in ('tuple1', 'tuple2', 'startuple1', 'startuple2')
        if c['kind'] == 'starred':
            text = E.render(c['slot'], E.KIND_TEXT[c['kind']], False)
        else:
            text = E.render(c['slot'], E.KIND_TEXT[c['kind']], True, tc)
        out.append(('cell:%s:%s' % (c['slot'], c['kind']), text))
        # the bare spelling too, wherever S says it is the same tree (the printer must round-trip either way)
        if c['bare_ok'] and c['kind'] != 'starred':
            out.append(('bare:%s:%s' % (c['slot'], c['kind']), E.render(c['slot'], E.KIND_TEXT[c['kind']], False, tc)))
    deep = []
    for c in cells:
        first = E.KIND_FIRST_SLOT.get(c['kind'])
        if not first or c['kind'] == 'starred':
            continue
        for g in sorted(inlang.get(first, ())):
            if g == 'starred':
                continue
            tc = c['kind'] in ('tuple1', 'tuple2', 'startuple1', 'startuple2')
            text = E.render(c['slot'], E.kind_text(c['kind'], inner=E.KIND_TEXT[g]), True, tc)
            deep.append(('chain:%s:%s:%s' % (c['slot'], c['kind'], g), text))
    total_deep = len(deep)
    if tier == 'quick':
        rng.shuffle(deep)
        deep = deep[:12000]
    return out + deep, total_deep


def run(args, rep):
    rng = random.Random(args.seed)
    r = tlc.check_model('Printer', 'MC_Printer.cfg', workers=4)
    rep.add_model('Printer/MC_Printer.cfg', r)
    if r.violated:
        raise MachineryError('Printer.tla: M does not satisfy S (%s)' % r.violated)
    cells, _ = tlc.export('Printer', 'Export_Printer.cfg')
    missing = (set(c['slot'] for c in cells) - set(E.SLOT_TEXT)) | (set(c['kind'] for c in cells) - set(E.KIND_TEXT))
    if missing:
        raise MachineryError('no source template for %s' % sorted(missing))
    texts, total_deep = chains(cells, args.tier, rng)
    lits = literal_modules()
    versions = available_versions()
    if args.tier == 'quick':
        deep_versions = {'3.12', '3.8', '3.13'}
    else:
        deep_versions = set(versions)
    records = []
    meta = {}
    per_version = {}
    side2 = []
    for v in versions:
        reqs = []
        if v == '2.7':
            # the literal modules that are also Python 2 programs (what does not parse there is not judged)
            for tid, text in lits:
                if tid.startswith(('numsweep:', 'negnum:', 'num:')):
                    reqs.append({'op': 'roundtrip', 'id': tid + '|' + v, 'src_b64': inputs.b64(text.encode('utf-8')), 'as_bytes': False})
        if v != '2.7':
            for tid, text in texts:
                if tid.startswith('chain:') and v not in deep_versions:
                    continue
                reqs.append({'op': 'roundtrip', 'id': tid + '|' + v, 'src_b64': inputs.b64(text.encode('utf-8')), 'as_bytes': False})
            for tid, text in lits:
                if tid.startswith('dbgspec:') and v not in deep_versions:
                    continue
                reqs.append({'op': 'roundtrip', 'id': tid + '|' + v, 'src_b64': inputs.b64(text.encode('utf-8')), 'as_bytes': False})
        mods = inputs.shapes(v)
        g, _s1 = corpus.grammar(v, 8 if args.tier == 'quick' else None)
        f, _s2 = corpus.stdlib(v, (60 if v == '3.12' else 12) if args.tier == 'quick' else None)
        mods += [('file:' + p, b) for p, b in g + f]
        for name, b in mods:
            reqs.append({'op': 'roundtrip', 'id': 'rt:%s|%s' % (name, v), 'src_b64': inputs.b64(b), 'as_bytes': True})
            reqs.append({'op': 'minify', 'id': 'off:%s|%s' % (name, v), 'src_b64': inputs.b64(b), 'as_bytes': True, 'opts': ALL_OFF, 'strict': True})
        res = pool.run_requests(v, reqs, timeout=240)
        n = 0
        for q in reqs:
            a = res.get(q['id'])
            if a is None or 'worker_error' in a:
                continue
            if a.get('parse_err') in ('ValueError', 'RecursionError', 'MemoryError') or a.get('print') == 'raise:RecursionError' or a.get('outcome') == 'raise:RecursionError':
                continue
            if q['op'] == 'roundtrip':
                rec = {'id': q['id'], 'what': 'roundtrip', 'parses': bool(a.get('parses')), 'print': a.get('print', 'ok'),
                       'reparses': bool(a.get('reparses', False)), 'strict_equal': bool(a.get('strict_equal', False)), 'outcome': ''}
            else:
                rec = {'id': q['id'], 'what': 'minify-off', 'parses': bool(a.get('compiles')), 'print': 'ok', 'reparses': True,
                       'strict_equal': bool(a.get('strict_equal', False)), 'outcome': a.get('outcome', 'raise:?')}
            records.append(rec)
            meta[q['id']] = (q, a)
            n += 1
            if rec['parses']:
                rep.nontrivial.add(sha(q['src_b64']))
        per_version[v] = n
        rep.evaluations += n
    # token spacing: TokensS / Tokens / Trace_Tokens over what the real TokenPrinter emitted for all of these texts
    tok_sources = [text for _tid, text in texts] + [text for _tid, text in lits]
    tok_sources += [b.decode('utf-8', 'surrogatepass') for _n, b in inputs.shapes('3.12')]
    tok_sources += [b.decode('utf-8', 'replace') for _p, b in corpus.stdlib('3.12', 60 if args.tier == 'quick' else 300)[0]]
    _tokens.token_section(args, rep, tok_sources)
    # side 2 of the triangle on the orchestrator's grammar: S's table against CPython's parser, cell by cell
    import ast
    import importlib.util
    import os
    from ..common import VERIF
    sp = importlib.util.spec_from_file_location('verif_worker_lib', os.path.join(VERIF, 'harness', 'worker.py'))
    w = importlib.util.module_from_spec(sp)
    sp.loader.exec_module(w)

    def P(t):
        try:
            return w.strict_dump(ast.parse(t))
        except SyntaxError:
            return None
    for c in cells:
        tc = c['kind'] in ('tuple1', 'tuple2', 'startuple1', 'startuple2')
        tb = P(E.render(c['slot'], E.KIND_TEXT[c['kind']], False, tc))
        if c['kind'] == 'starred':
            truth = tb is not None
        else:
            tp = P(E.render(c['slot'], E.KIND_TEXT[c['kind']], True, tc))
            if tp is None:
                continue
            truth = tb is not None and tb == tp
        if truth != c['bare_ok']:
            side2.append('%s/%s: S says bare spelling ok=%s, CPython says %s' % (c['slot'], c['kind'], c['bare_ok'], truth))
    if side2:
        raise MachineryError('PrinterS.tla disagrees with this interpreter\'s grammar on %d cells, e.g. %s' % (len(side2), side2[:3]))

    verdicts, judged = tlc.judge('Trace_Printer', 'Trace_Printer.cfg', records, tag='C02')
    rep.add_judged(judged)
    for rid, vd in sorted(verdicts.items()):
        q, a = meta[rid]
        name, version = rid.rsplit('|', 1)
        src = base64.b64decode(q['src_b64'])
        code = base64.b64decode(a['code_b64']).decode('utf-8', 'replace') if a.get('code_b64') else ''
        rep.violation(key=name + '|' + ('py2' if version == '2.7' else 'py3'), clause=vd[0],
                      what='%s python=%s source=%r printed=%r %s' % (name, version, src[:80], code[:80], a.get('strict_diff', a.get('msg', ''))),
                      replay={'kind': 'minify', 'version': version, 'src_b64': q['src_b64'], 'opts': ALL_OFF, 'strict': True, 'as_bytes': q.get('as_bytes', True)})
    for tid, text in (texts[0], texts[len(texts) // 3], texts[-1]):
        a = meta.get(tid + '|3.12')
        rep.sample({'chain': tid, 'source': text, 'printed': base64.b64decode(a[1].get('code_b64', '')).decode() if a else None})
    rep.exhaustive = (args.tier != 'quick')
    rep.rule = ('cells = (slot, kind) pairs exported by TLC from Printer.tla (6 922), each also in its bare spelling where S allows; depth-2 chains = '
                'cell x every kind admissible in the child\'s first slot (%d; quick: seeded 12 000); literal boundary values x operator contexts; whole '
                'modules; non-trivial = distinct sources accepted by the interpreter that ran them' % total_deep)
    rep.extra.update({'records_per_version': per_version, 'cells': len(cells), 'depth2_chains_total': total_deep,
                      's_table_cells_validated_against_cpython': len(cells),
                      'checker_cmd': 'tlc Printer.tla (MC_Printer.cfg); tlc Trace_Printer.tla over ndjson observations'})
    rep.assumptions += ['strict identity is computed by the interpreter under test (harness/worker.py strict_dump: types, values, sign bit, complex parts)',
                        'chains are rendered as text and parsed; hand-built trees are never used',
                        'RecursionError on pathological depth is not judged']


if __name__ == '__main__':
    main_wrapper(PID, run)
