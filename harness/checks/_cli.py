"""Shared driver for the command line properties C13, C14, C15 (spec: CliS.tla / Cli.tla / Trace_Cli.tla)."""
from __future__ import print_function

import random

from ..common import MachineryError, sha
from .. import tlc, local, cli_run


def model(rep, tier):
    cfg = 'MC_Cli.cfg' if tier == 'quick' else 'MC_Cli4.cfg'
    r = tlc.check_model('Cli', cfg, coverage=(tier == 'quick'), timeout=7200)
    rep.add_model('Cli/' + cfg, r)
    if r.violated:
        raise MachineryError('Cli.tla: M does not satisfy S (%s) - the model of __main__.py is out of date' % r.violated)
    return r


def configs(tier, rng, want=None):
    """abstract configurations enumerated by TLC (initial states of Cli.tla)"""
    c2, _ = tlc.export('Cli', 'Export_Cli2.cfg')
    c3, _ = tlc.export('Cli', 'Export_Cli3.cfg')
    out = [('n2-%d' % k, c) for k, c in enumerate(c2)]
    idx = list(range(len(c3)))
    rng.shuffle(idx)
    take = 6000 if tier == 'quick' else 120000
    out += [('n3-%d' % k, c3[k]) for k in sorted(idx[:take])]
    if want is not None:
        out = [(i, c) for i, c in out if want(c)]
    return out, len(c2) + len(c3)


EXTRA_SHAPES = [
    # configurations outside Cli.tla's Init: stdin and the remaining documented rejections
    {'reach': ['named'], 'class': ['shrinks'], 'shape': 'stdin', 'mode': 'stdout'},
    {'reach': ['named'], 'class': ['shrinks'], 'shape': 'stdin', 'mode': 'output'},
    {'reach': ['named'], 'class': ['shrinks'], 'shape': 'stdin', 'mode': 'in_place'},
    {'reach': ['named'], 'class': ['grows'], 'shape': 'stdin', 'mode': 'stdout'},
    {'reach': ['named'], 'class': ['grows'], 'shape': 'stdin', 'mode': 'output'},
    {'reach': ['named'], 'class': ['equal'], 'shape': 'stdin', 'mode': 'stdout'},
    {'reach': ['named'], 'class': ['empty'], 'shape': 'stdin', 'mode': 'stdout'},
    {'reach': ['named'], 'class': ['empty'], 'shape': 'stdin', 'mode': 'output'},
    {'reach': ['named'], 'class': ['invalid'], 'shape': 'stdin', 'mode': 'stdout'},
    {'reach': ['named'], 'class': ['invalid'], 'shape': 'stdin', 'mode': 'output'},
    {'reach': ['named'], 'class': ['undecodable'], 'shape': 'stdin', 'mode': 'output'},
    {'reach': ['named'], 'class': ['shrinks'], 'shape': 'stdin_and_file', 'mode': 'stdout'},
    {'reach': ['named'], 'class': ['shrinks'], 'shape': 'stdin_and_file', 'mode': 'in_place'},
    {'reach': ['named'], 'class': ['shrinks'], 'shape': 'stdin_and_file', 'mode': 'output'},
]


# path-argument spellings outside Cli.tla's Init: --output naming the source itself (directly / through a symlink), and a target that the
# arguments reach twice (the same file named twice in different spellings; a directory and a file inside it)
PATH_SHAPES = []
for _c in ('shrinks', 'grows', 'equal', 'invalid', 'legacy', 'empty', 'undecodable', 'nonidem'):
    PATH_SHAPES.append({'reach': ['named'], 'class': [_c], 'shape': 'one_file', 'mode': 'output', 'self_output': 'direct'})
    PATH_SHAPES.append({'reach': ['named'], 'class': [_c], 'shape': 'one_file', 'mode': 'output', 'self_output': 'symlink'})
for _c in ('shrinks', 'nonidem', 'grows', 'invalid'):
    PATH_SHAPES.append({'reach': ['named', 'named'], 'class': [_c, 'shrinks'], 'shape': 'many', 'mode': 'in_place', 'twice': 'named'})
    PATH_SHAPES.append({'reach': ['dir_py', 'dir_py'], 'class': [_c, 'shrinks'], 'shape': 'dir', 'mode': 'in_place', 'twice': 'dir+file'})
    PATH_SHAPES.append({'reach': ['dir_py', 'dir_py'], 'class': [_c, 'shrinks'], 'shape': 'dir', 'mode': 'in_place', 'twice': 'dir+dir'})


def extra_configs():
    out = []
    for k, c in enumerate(PATH_SHAPES):
        for force in (False, True):
            d = dict(c)
            d['force'] = force
            out.append(('p-%d-%d' % (k, int(force)), d))
    for k, c in enumerate(EXTRA_SHAPES):
        for force in (False, True):
            d = dict(c)
            d['force'] = force
            out.append(('x-%d-%d' % (k, int(force)), d))
    return out


def run_and_judge(rep, cfgs, family, seed, tag):
    jobs = [{'id': i, 'cfg': c, 'variant': (seed + k) % 97} for k, (i, c) in enumerate(cfgs)]
    obs = local.pmap(cli_run.run_config, jobs, chunksize=16)
    rep.evaluations += len(obs)
    verdicts, judged = tlc.judge('Trace_Cli', 'Trace_Cli.cfg', obs, tag=tag)
    rep.add_judged(judged)
    byid = {o['id']: o for o in obs}
    cfgby = dict(cfgs)
    for o in obs:
        if any(f['post'] == 'min' for f in o['files']) or o['outw']['what'] != 'none' or o['sout']['what'] != 'none' or o['exit'] != 0:
            rep.nontrivial.add(sha(repr((o['shape'], o['mode'], o['force'], [(f['reach'], f['class']) for f in o['files']]))))
    for rid, v in sorted(verdicts.items()):
        clause = v[0]
        if not clause.startswith(family):
            continue
        c = cfgby[rid]
        key = '%s%s%s|%s|%s|force=%s|%s' % (c['shape'], '+self-output-' + c['self_output'] if c.get('self_output') else '', '+twice-' + c['twice'] if c.get('twice') else '', c['mode'], ','.join('%s:%s' % x for x in zip(c['reach'], c['class'])), c['force'], clause)
        rep.violation(key=key, clause=clause, what='configuration %s -> exit=%s %s' % (c, byid[rid]['exit'], byid[rid].get('exc', '')),
                      replay={'kind': 'cli', 'check': '_cli', 'cfg': c, 'observed': byid[rid]})
    for o in obs[:3]:
        rep.sample({'configuration': cfgby[o['id']], 'observed': {k: o[k] for k in ('exit', 'order', 'outw', 'sout')},
                    'files_post': [f['post'] for f in o['files']]})
    return obs, verdicts


def replay(rp):
    rec = cli_run.run_config({'id': 'replay', 'cfg': rp['cfg'], 'variant': 0})
    v, _ = tlc.judge('Trace_Cli', 'Trace_Cli.cfg', [rec], tag='replay')
    print('observed now:', rec)
    print('verdict now:', v.get('replay', ['ok'])[0])
