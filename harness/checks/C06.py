"""C06 - hoisted literals are bound once, before use, to an identical value; never where a name would mean something else.

Decided by HoistS.tla / Hoist.tla (the hoister's use collection and placement rule, M, against Python's evaluation-scope and
visibility rules, S, for every set of <= 4 (quick) / 5 (thorough) of 18 places of a fixed program skeleton x 4 literal kinds) and
Trace_Hoist.tla judging the real minifier on every enumerated case x 3 option sets: which places now hold a name, where and how often
that name is assigned, its position relative to docstrings / __future__ imports, identity of the bound value, and a run of both programs.
"""
import random

from ..common import main_wrapper, sha, MachineryError, available_versions
from .. import tlc, local, pool, hoistgen, inputs

PID = 'C06'


def typed_literal_modules(py2):
    """modules in which two spellings of a literal with the same text but another type occur often enough to be hoisted: the alias must be bound to an
    IDENTICAL value, so each spelling needs its own alias (on 2.x 'x' == u'x' and they hash alike; on 3.x '' vs b'' never compare equal)"""
    out = []
    pairs = [("'Hello world'", "u'Hello world'"), ("'Hello world'", "b'Hello world'"), ("u'Hello world'", "b'Hello world'"), ("''", "u''"), ("'Hello world'", "'Hello world'")]
    for fut in (False, True):
        for a, b in pairs:
            for na, nb in ((3, 3), (5, 1), (1, 5), (4, 4)):
                for place in ('module', 'function', 'documented'):
                    items = [a] * na + [b] * nb
                    body = 'values = [%s]\nprint([(type(v).__name__, v) for v in values])\n' % ', '.join(items)
                    if place == 'function':
                        body = 'def f():\n    values = [%s]\n    return [(type(v).__name__, v) for v in values]\nprint(f())\n' % ', '.join(items)
                    if place == 'documented':
                        # the bodies that receive the alias assignments start with a docstring (and, for the module, the future statement): both must stay where they are
                        body = ('def f():\n    "function docstring"\n    values = [%s]\n    return [(type(v).__name__, v) for v in values]\n'
                                'more = [%s]\nprint(f())\nprint([(type(v).__name__, v) for v in more])\nprint((__doc__, f.__doc__))\n' % (', '.join(items), ', '.join(items)))
                    src = ('"module docstring"\n' if place == 'documented' else '') + ('from __future__ import unicode_literals\n' if fut else '') + body
                    out.append(('typed:%s:%s+%s:%d+%d:%s' % ('fut' if fut else 'plain', a, b, na, nb, place), src))
    return out


def typed_literal_section(args, rep):
    """minify and run under 2.7 and two 3.x interpreters; Trace_Behave.tla compares what input and output print"""
    versions = [v for v in (('2.7', '3.12') if args.tier == 'quick' else ('2.7', '3.6', '3.8', '3.12', '3.13')) if v in available_versions()]
    records = []
    srcs = {}
    for v in versions:
        mods = typed_literal_modules(v == '2.7')
        reqs = [{'op': 'minify', 'id': n, 'src_b64': inputs.b64(t.encode()), 'as_bytes': False, 'opts': {}} for n, t in mods]
        res = pool.run_requests(v, reqs, timeout=300)
        ex = []
        for n, t in mods:
            a = res.get(n, {})
            if not a.get('compiles') or 'worker_error' in a:
                continue
            ex.append({'op': 'exec', 'id': 'in:' + n, 'src_b64': inputs.b64(t.encode())})
            if a.get('outcome') == 'return':
                ex.append({'op': 'exec', 'id': 'out:' + n, 'src_b64': a['out_b64']})
        er = pool.run_requests(v, ex, timeout=300)
        for n, t in mods:
            a = res.get(n, {})
            if not a.get('compiles') or 'worker_error' in a or 'in:' + n not in er:
                continue
            rid = '%s|%s' % (n, v)
            srcs[rid] = (t, a, v)
            i, o = er['in:' + n], er.get('out:' + n, {})
            records.append({'id': rid, 'outcome': a.get('outcome', 'raise:?'), 'obs0': i.get('stdout', '') + '|' + i.get('exc', ''), 'stages': [],
                            'obs_final': o.get('stdout', '') + '|' + o.get('exc', '')})
            if a.get('out_b64') and a['out_b64'] != inputs.b64(t.encode()):
                rep.nontrivial.add(sha(rid))
    rep.evaluations += len(records)
    verdicts, judged = tlc.judge('Trace_Behave', 'Trace_Behave.cfg', records, tag='C06t')
    rep.add_judged(judged)
    import base64
    for rid, vd in sorted(verdicts.items()):
        t, a, v = srcs[rid]
        rep.violation(key=rid + '|' + vd[0], clause=('c06:docstring-or-value-changed-where-the-alias-assignments-were-placed' if ':documented|' in rid else 'c06:alias-bound-to-a-value-of-another-type') if vd[0].startswith('c01:minified') else vd[0],
                      what='%s\n%s--- output:\n%s' % (rid, t, base64.b64decode(a.get('out_b64', '')).decode('utf-8', 'replace')),
                      replay={'kind': 'minify', 'version': v, 'src_b64': inputs.b64(t.encode()), 'opts': {}})
    rep.extra['typed_literal_runs'] = len(records)
    return len(records)


def run(args, rep):
    rng = random.Random(args.seed)
    cfg = 'MC_Hoist4.cfg' if args.tier == 'quick' else 'MC_Hoist5.cfg'
    r = tlc.check_model('Hoist', cfg, workers=6, timeout=3600)
    rep.add_model('Hoist/' + cfg, r)
    if r.violated:
        raise MachineryError('Hoist.tla: M does not satisfy S (%s)' % r.violated)
    cases, _ = tlc.cached_export('Hoist', 'Export_Hoist3.cfg' if args.tier == 'quick' else 'Export_Hoist4.cfg', timeout=3600)
    total = len(cases)
    optsets = [('default', {}), ('rg', {'rename_globals': True}), ('nolocals', {'rename_locals': False})]
    jobs = []
    for k, c in enumerate(cases):
        for on, o in optsets:
            jobs.append({'id': 'h%d|%s' % (k, on), 'uses': c['uses'], 'lit': c['lit'], 'opts': o, 'home': c['home']})
            if on in ('default', 'rg'):
                # the same case in the skeleton whose class attributes are called like the aliases the hoister hands out
                jobs.append({'id': 'h%d|%s+adv' % (k, on), 'uses': c['uses'], 'lit': c['lit'], 'opts': o, 'home': c['home'], 'variant': 'adv'})
            if on == 'default' and k % 3 == 0:
                # two separate future statements, kept separate (combine_imports off): the annotation place is still text
                jobs.append({'id': 'h%d|nocombine+fut2' % k, 'uses': c['uses'], 'lit': c['lit'], 'opts': dict(o, combine_imports=False), 'home': c['home'], 'variant': 'fut2'})
            if c['lit'] in hoistgen.SPELL['folded']:
                # the same case with every occurrence spelled as an expression that constant folding turns into the literal
                jobs.append({'id': 'h%d|%s+folded' % (k, on), 'uses': c['uses'], 'lit': c['lit'], 'opts': o, 'home': c['home'], 'spell': 'folded'})
    obs = local.pmap(hoistgen.observe, jobs, chunksize=16)
    rep.evaluations += len(obs)
    keep = {}
    records = []
    drift = 0
    for j, o in zip(jobs, obs):
        if o.get('skip'):
            continue
        keep[o['id']] = o
        records.append({k: v for k, v in o.items() if not k.startswith('_')})
        if o['replaced']:
            rep.nontrivial.add(sha(repr((o['uses'], o['lit']))))
            if len(o['aliases']) == 1 and o['aliases'][0]['scope'] != j['home']:
                drift += 1
    verdicts, judged = tlc.judge('Trace_Hoist', 'Trace_Hoist.cfg', records, tag='C06')
    rep.add_judged(judged)
    # behaviour differences: is it the PEP 709 shape (known finding D18)?  the same output behaves like the input on CPython 3.11
    differ = [rid for rid, v in verdicts.items() if v[0] == 'c06:behaviour-differs']
    d18 = set()
    if differ and '3.11' in available_versions():
        # minify the same input under 3.11 (same naming decisions, 3.11-compatible f-string spelling) and run both there
        jb = {j['id']: j for j in jobs}
        mreqs = [{'op': 'minify', 'id': rid, 'src_b64': inputs.b64(keep[rid]['_src'].encode()), 'as_bytes': False,
                  'opts': dict(jb[rid]['opts'], remove_annotations=False)} for rid in differ]
        mres = pool.run_requests('3.11', mreqs)
        reqs = []
        for rid in differ:
            if mres.get(rid, {}).get('outcome') != 'return':
                continue
            reqs.append({'op': 'exec', 'id': 'in:' + rid, 'src_b64': inputs.b64(keep[rid]['_src'].encode()), 'emit': True})
            reqs.append({'op': 'exec', 'id': 'out:' + rid, 'src_b64': mres[rid]['out_b64'], 'emit': True})
        res = pool.run_requests('3.11', reqs)
        for rid in differ:
            a, b = res.get('in:' + rid, {}), res.get('out:' + rid, {})
            same311 = 'stdout' in a and 'stdout' in b and a.get('stdout') == b.get('stdout') and a.get('exc') == b.get('exc')
            out312 = hoistgen.run(keep[rid]['_out'])
            if same311 and out312.rsplit('#', 1)[1] in ('NameError', 'UnboundLocalError'):
                d18.add(rid)
    n_typed = typed_literal_section(args, rep)
    for rid, v in sorted(verdicts.items()):
        if v[0].startswith('machinery:'):
            raise MachineryError('%s on %s: %s' % (v[0], rid, keep[rid].get('msg')))
        o = keep[rid]
        shape = 'uses=%s lit=%s opts=%s' % (o['uses'], o['lit'], rid.split('|')[1])      # opts carries the spelling (+folded)
        rep.violation(key=('D18:' if rid in d18 else '') + shape + '|' + v[0], clause=v[0],
                      what='%s replaced=%s aliases=%s\n--- output:\n%s' % (shape, o['replaced'], o['aliases'], o.get('_out')),
                      replay={'kind': 'minify', 'version': '3.12', 'src_b64': inputs.b64(o['_src'].encode()), 'opts': dict(remove_annotations=False)})
    for o in [x for x in keep.values() if x['replaced']][:2]:
        rep.sample({'uses': o['uses'], 'literal': o['lit'], 'replaced_places': o['replaced'], 'aliases': o['aliases']})
    rep.exhaustive = True
    rep.rule = ('cases = non-empty sets of at most %d of the 18 places x {str, bytes, None, True} exported by TLC (%d), each minified under defaults, rename_globals and '
                'rename_locals off, the True cases also with every occurrence spelled `True&True` (folded to a new node first); non-trivial = distinct cases in which at least one place was replaced by a name' % (3 if args.tier == 'quick' else 4, total))
    rep.extra.update({'cases_enumerated_by_tlc': total, 'placement_differs_from_model': drift, 'pep709_cases': len(d18),
                      'checker_cmd': 'tlc Hoist.tla (%s); tlc Trace_Hoist.tla over ndjson observations' % cfg})
    rep.assumptions += ['places are found in the output by structure (the skeleton is fixed); alias assignments are the constant assignments in the head of a module / function body',
                        'a difference that disappears on CPython 3.11 and is a NameError/UnboundLocalError on 3.12 is attributed to PEP 709 (known finding D18)']


if __name__ == '__main__':
    main_wrapper(PID, run)
