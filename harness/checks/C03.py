"""C03 - renaming preserves which binding every name refers to.

Decided by PyScope.tla (Python's resolution rules, S) + Rename.tla (the minifier's mapper / binder / resolver / assigner, M;
TLC checks NoCapture, StaysCompilable and friends for every program in bounds, every processing order and rename/decline choice)
and Trace_Rename.tla judging the real renamer on every enumerated program: spelling of every occurrence read back by tag,
Python's rules evaluated on input and output by TLC, plus compile() and a run of both programs.
"""
import os
import random

from ..common import main_wrapper
from . import _rename

PID = 'C03'


def run(args, rep):
    rng = random.Random(args.seed)
    # the two-name model (22.4 M states, 50 minutes on 16 idle cores) is run on request only: VERIF_DEEP_MODEL=1
    _rename.model(rep, args.tier, deep=bool(os.environ.get('VERIF_DEEP_MODEL')))
    progs, total = _rename.programs(args.tier, rng)
    optsets = [('TT', {'rl': True, 'rg': True}), ('TF', {'rl': True, 'rg': False}), ('FT', {'rl': False, 'rg': True})]
    skipped = _rename.observe_and_judge(rep, progs, optsets, ['c03:'], 'C03', rng)
    cprogs, ctotal = _rename.chain_programs(args.tier, rng)
    total += ctotal
    skipped_c = _rename.observe_and_judge(rep, cprogs, [('TT', {'rl': True, 'rg': True})], ['c03:'], 'C03c', rng, variant_share=0.0, store_share=0.0)
    n_py2 = _rename.py2_replay(rep, args.tier, rng, ['c03:'], 'C03py2', optsets)
    n709_jobs, n709 = _rename.pep709_replay(rep, args.tier, rng, 'C03p')
    rep.exhaustive = False
    rep.rule = ('programs = initial states of Rename.tla exported by TLC: every scope tree of module + 2 scopes of kinds function / class / comprehension / lambda with '
                'every admissible use set (load, store, global, nonlocal, param, walrus) of one name (6 484), module + 1 scope with two names (4 156), and a seeded '
                'sample of module + 2 scopes with two names (433 380; quick 3 000, thorough 20 000 + 20 000 of module + 3 scopes); each under 3 option sets and two '
                'statement orders; plus 4-deep chains of scopes with one name (70 112; quick 3 000, thorough 20 000, favouring class-in-class) with both renamings on; a share with other store spellings; non-trivial = distinct programs in which at least one occurrence was respelled')
    rep.extra.update({'programs_enumerated_by_tlc': total, 'programs_replayed': len(progs) + len(cprogs), 'skipped': skipped, 'skipped_chains': skipped_c, 'chain_programs_replayed': len(cprogs), 'programs_replayed_under_python_2_7': n_py2, 'pep709_skeleton_programs': n709_jobs, 'pep709_rejections': n709,
                      'checker_cmd': 'tlc Rename.tla (MC_Rename_*.cfg); tlc Trace_Rename.tla over ndjson observations'})
    rep.assumptions += ['occurrence correspondence is by unique integer tags in the generated programs',
                        'helper names of the generated programs (emit, f<k>, C<k>, NameError) are preserved and therefore not judged',
                        'the dynamic comparison runs on the orchestrator interpreter (3.12: PEP 709 inlined comprehensions)']


if __name__ == '__main__':
    main_wrapper(PID, run)
