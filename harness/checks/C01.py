"""C01 - the minified module behaves exactly like the original under the options documented as safe.

Decided by Pipeline.tla (composition and gating of the stages) and Trace_Behave.tla (ObsStable) judging runs of runnable programs: the source,
the tree after every stage of minify() (outside seams; compiled as an AST, no printer involved) and the printed result must all produce the same
output, terminating exception type and public namespace.  Programs: every enumerated scope program of Rename.tla, suite case of Suite.tla and
hoist placement of Hoist.tla (concretised runnable), the arithmetic cells of Fold.tla (120 to a module), hand-written seed scripts; options: the defaults and seeded subsets of the safe options.
"""
import importlib.util
import os
import random

from ..common import main_wrapper, sha, MachineryError, available_versions, VERIF
from .. import tlc, local, pool, behave, scopegen, suitegen, hoistgen, shadowgen, inputs

PID = 'C01'

_sp = importlib.util.spec_from_file_location('verif_seeds', os.path.join(VERIF, 'corpus', 'seeds.py'))
seeds_mod = importlib.util.module_from_spec(_sp)
_sp.loader.exec_module(seeds_mod)

DOCSTRING_CONTEXTS = ('function', 'class', 'dataclass', 'dataclass_second', 'dataclass_call', 'dataclass_name', 'namedtuple', 'namedtuple_name', 'typeddict')
SUITE_SAFE = {'remove_pass', 'combine_imports', 'ann_variable', 'remove_object_base', 'remove_explicit_return_none', 'remove_builtin_exception_brackets'}


def programs(tier, rng):
    out = []
    # scope programs
    p31, _ = tlc.cached_export('Rename', 'Export_Rename_3x1.cfg')
    p22, _ = tlc.cached_export('Rename', 'Export_Rename_2x2.cfg')
    progs = [('scope31-%d' % k, p) for k, p in enumerate(p31)] + [('scope22-%d' % k, p) for k, p in enumerate(p22)]
    if tier != 'quick':
        p32, _ = tlc.cached_export('Rename', 'Export_Rename_3x2.cfg', timeout=3600)
        idx = list(range(len(p32)))
        rng.shuffle(idx)
        progs += [('scope32-%d' % k, p32[k]) for k in idx[:60000]]
    rng.shuffle(progs)
    for pid, p in progs[:3500 if tier == 'quick' else None]:
        for variant in (0, 1):
            c = scopegen.Conc(p, variant=variant)
            out.append(('%s-v%d' % (pid, variant), c.src, 'scope'))
        # adversarial spelling: the program's own names are the first names the generator hands out
        c = scopegen.Conc(p, variant=0, names={'x': 'A', 'y': 'B'})
        out.append(('%s-vAB' % pid, c.src, 'scope'))
        # the stores as other binding statements, one suite down (`if ...:` inside the scope): import / annotated assignment / for / with / tuple
        if any('store' in hs for u in p['uses'] for hs in u.values()):
            sp = ['import', 'ann', 'for', 'with', 'tuple'][rng.randrange(5)]
            c = scopegen.Conc(p, variant=0, store=sp, wrap=True)
            out.append(('%s-s-%s-wrapped' % (pid, sp), c.src, 'scope'))
    # every two-name program once more with adversarial spelling and the second name mentioned more often than the first
    for k, p in enumerate(p22):
        c = scopegen.Conc(p, variant=0, names={'x': 'A', 'y': 'B'}, heavy=('y',))
        out.append(('scope22-%d-vABh' % k, c.src, 'scope'))
    # suite cases (the block in its context), under whatever safe options are drawn
    c1, _ = tlc.cached_export('Suite', 'Export_Suite1.cfg')
    c2, _ = tlc.cached_export('Suite', 'Export_Suite2.cfg', timeout=3600)
    seen = set()
    cases = []
    for c in c1 + c2:
        key = (c['ctx'], tuple(sorted(c['env'].items())), tuple(tuple(st) for st in c['blk']))
        if key in seen or c['env'].get('tainted'):
            continue
        seen.add(key)
        cases.append(c)
    rng.shuffle(cases)
    for k, c in enumerate(cases[:3000 if tier == 'quick' else 40000]):
        src, _path, _npre, _n = suitegen.concretize(c['ctx'], c['env'], c['blk'])
        out.append(('suite-%s-%d' % (c['ctx'], k), src, 'suite:%s:%s' % (c['ctx'], ';'.join('.'.join(st) for st in c['blk']))))
    # hoist placements
    hc, _ = tlc.cached_export('Hoist', 'Export_Hoist3.cfg')
    rng.shuffle(hc)
    for k, c in enumerate(hc[:600 if tier == 'quick' else None]):
        uses = hoistgen.applicable(c['uses'], c['lit'])
        # every other one in the skeleton with two separate future statements / with class attributes named like hoisted aliases
        out.append(('hoist-%d' % k, hoistgen.build(set(uses), c['lit'], 'plain', [None, 'fut2', 'adv', 'adv+fut2'][k % 4]), 'hoist'))
    for name, src in seeds_mod.seeds_for((3, 12)):
        out.append(('seed-' + name, src, 'seed'))
    # builtin names a safe transform treats specially (`object` as a base, a builtin exception raised with empty brackets), rebound in 10 ways x 6 use sites
    out.extend(shadowgen.programs())
    # arithmetic: the cells of Fold.tla (operator x operand class x operand class, concrete literals as in C07), many to a module in seeded order, each
    # reporting the repr() of its value or the exception type - anything the folder carries from one expression to the next shows up here
    from . import C07 as c07
    cells, _ = tlc.cached_export('Fold', 'Export_Fold.cfg')
    exprs = []
    for c in cells:
        for l in c07.LITS[c['lc']]:
            for rr in c07.LITS[c['rc']]:
                if not c07.dangerous(c['op'], l, rr):
                    exprs.append('%s %s %s' % (l, c07.SYM[c['op']], rr))
    exprs = sorted(set(exprs))
    rng.shuffle(exprs)
    per = 120
    nmod = 30 if tier == 'quick' else (len(exprs) + per - 1) // per
    for k in range(nmod):
        body = '\n'.join('try: emit(repr(%s))\nexcept Exception as e: emit(type(e).__name__)' % e for e in exprs[k * per:(k + 1) * per])
        if body:
            out.append(('fold-%d' % k, body + '\n', 'fold'))
    return out


def run(args, rep):
    rng = random.Random(args.seed)
    r = tlc.check_model('Pipeline', 'MC_Pipeline.cfg')
    rep.add_model('Pipeline/MC_Pipeline.cfg', r)
    if r.violated:
        raise MachineryError('Pipeline.tla: M does not satisfy S (%s)' % r.violated)
    progs = programs(args.tier, rng)
    jobs = []
    for pid, src, kind in progs:
        try:
            compile(src, 'p', 'exec')
        except SyntaxError:
            continue
        nsub = (12 if args.tier == 'quick' else 200) if kind == 'seed' else (3 if kind.startswith('shadow:') else 1)
        jobs.append({'id': pid + '|default', 'src': src, 'opts': {}, 'stages': kind == 'seed' or rng.random() < 0.25, 'kind': kind})
        for k in range(nsub):
            jobs.append({'id': '%s|safe%d' % (pid, k), 'src': src, 'opts': behave.safe_subset(rng), 'stages': kind == 'seed' and k < 4, 'kind': kind})
    obs = local.pmap(behave.observe, jobs, chunksize=16)
    rep.evaluations += len(obs)
    keep = {o['id']: o for o in obs}
    jb = {j['id']: j for j in jobs}
    records = [{k: v for k, v in o.items() if not k.startswith('_')} for o in obs]
    for o in obs:
        if o.get('_out') is not None and o['_out'] != jb[o['id']]['src']:
            rep.nontrivial.add(sha(jb[o['id']]['src']))
    verdicts, judged = tlc.judge('Trace_Behave', 'Trace_Behave.cfg', records, tag='C01')
    rep.add_judged(judged)
    # re-run flagged programs with every stage observed, to name the stage; then classify known shapes
    flagged = sorted(verdicts)
    rerun = [dict(jb[rid], stages=True) for rid in flagged if not jb[rid]['stages']]
    if rerun:
        obs2 = local.pmap(behave.observe, rerun, chunksize=4)
        v2, _ = tlc.judge('Trace_Behave', 'Trace_Behave.cfg', [{k: v for k, v in o.items() if not k.startswith('_')} for o in obs2], tag='C01b')
        for o in obs2:
            keep[o['id']] = o
            if o['id'] in v2:
                verdicts[o['id']] = v2[o['id']]
    # PEP 709 signature (known finding D18): the program minified and run under CPython 3.11 behaves like its input there
    d18 = set()
    if flagged and '3.11' in available_versions():
        mreqs = [{'op': 'minify', 'id': rid, 'src_b64': inputs.b64(jb[rid]['src'].encode()), 'as_bytes': False, 'opts': jb[rid]['opts']} for rid in flagged]
        mres = pool.run_requests('3.11', mreqs)
        reqs = []
        for rid in flagged:
            if mres.get(rid, {}).get('outcome') == 'return':
                reqs.append({'op': 'exec', 'id': 'in:' + rid, 'src_b64': inputs.b64(jb[rid]['src'].encode()), 'emit': True})
                reqs.append({'op': 'exec', 'id': 'out:' + rid, 'src_b64': mres[rid]['out_b64'], 'emit': True})
        res = pool.run_requests('3.11', reqs)
        for rid in flagged:
            a, b = res.get('in:' + rid, {}), res.get('out:' + rid, {})
            same311 = 'stdout' in a and 'stdout' in b and a.get('stdout') == b.get('stdout') and a.get('exc') == b.get('exc')
            fin = keep[rid].get('obs_final', '')
            if same311 and ('|EXC:NameError|' in fin or '|EXC:UnboundLocalError|' in fin or "'NameError'" in fin or 'NameError' in fin.split('|EXC:')[0][-4000:]):
                d18.add(rid)
    # known finding D45: `object` is rebound and remove_object_base drops it all the same - the same options with that one transform off leave the behaviour alone
    d45 = set()
    cand = [rid for rid in flagged if jb[rid]['kind'].startswith('shadow:object:') and jb[rid]['opts'].get('remove_object_base', True)
            and not (jb[rid]['kind'].split(':')[2] == 'none' and jb[rid]['kind'].split(':')[3] in ('module', 'function', 'second-base'))]
    if cand:
        obs3 = local.pmap(behave.observe, [dict(jb[rid], id=rid, opts=dict(jb[rid]['opts'], remove_object_base=False), stages=True) for rid in cand], chunksize=4)
        v3, _ = tlc.judge('Trace_Behave', 'Trace_Behave.cfg', [{k: v for k, v in o.items() if not k.startswith('_')} for o in obs3], tag='C01c')
        d45 = set(cand) - set(v3)
    for rid, v in sorted(verdicts.items()):
        j = jb[rid]
        o = keep[rid]
        kind = j['kind']
        tag = ''
        if rid in d18:
            tag = 'D18:'
        elif rid in d45:
            tag = 'D45:'
        elif kind.startswith('suite:module_top') and 'litstr' in kind and not kind.startswith('suite:module_top:litstr'):
            # a string statement that becomes the module docstring once the statements before it are removed (known finding D20)
            if o.get('_out', '').lstrip().startswith(("'lit'", '"lit"')):
                tag = 'D20:'
        elif kind.startswith('suite:') and 'litstr' in kind and kind.split(':')[1] in DOCSTRING_CONTEXTS and not kind.split(':')[2].startswith('litstr'):
            # ... or the docstring of the function / class whose body the block is: the observation differs in that docstring only
            a, b = o.get('obs0', ''), o.get('obs_final', '')
            if ("('fndoc', None)" in a and "('fndoc', 'lit')" in b and a.replace("('fndoc', None)", "('fndoc', 'lit')") == b) or \
                    (", None)|" in a and ", 'lit')|" in b and a.replace(", None)|", ", 'lit')|", 1) == b):
                tag = 'D20:'
        rep.violation(key=tag + (kind if kind != 'scope' else 'scope:' + sha(j['src'])[:12]) + '|' + rid.split('|')[1] + '|' + v[0], clause=v[0],
                      what='%s\n%s--- output:\n%s\ninput observation:  %s\noutput observation: %s' % (rid, j['src'][:1500], str(o.get('_out'))[:1500], o.get('obs0', '')[:300], o.get('obs_final', '')[:300]),
                      replay={'kind': 'minify', 'version': '3.12', 'src_b64': inputs.b64(j['src'].encode()), 'opts': j['opts']})
    s0 = [o for o in obs if o['stages']][:1]
    for o in s0:
        rep.sample({'program': o['id'], 'stages_observed': [s['stage'] for s in o['stages']], 'observation': o['obs0'][:200]})
    rep.sample({'program': obs[-1]['id'], 'observation': obs[-1]['obs0'][:200]})
    rep.exhaustive = False
    rep.rule = ('runnable programs: enumerated scope programs of Rename.tla in two statement orders, suite cases of Suite.tla in their contexts, hoist placements of Hoist.tla, 12 seed '
                'scripts, 122 programs rebinding `object` / a builtin exception (10 rebindings x 6 use sites); each under the defaults and seeded subsets of the safe options (seeds: %d subsets); a quarter of the programs (all seeds) with an observation after every '
                'stage; non-trivial = distinct programs whose minified text differs from the input' % (12 if args.tier == 'quick' else 200))
    rep.extra.update({'programs': len(progs), 'object_base_cases': len(d45), 'runs_with_stage_observations': sum(1 for o in obs if o['stages']), 'pep709_cases': len(d18),
                      'checker_cmd': 'tlc Pipeline.tla; tlc Trace_Behave.tla over ndjson observations'})
    rep.assumptions += ['observation = stdout, emit() log, terminating exception type, public namespace (simple values by repr, classes by attribute names, functions by arity)',
                        'programs do not print renamed names, annotations or line numbers, or compare exception messages (documented reflective freedom)',
                        'runs on the orchestrator interpreter (3.12); the PEP 709 classification additionally uses 3.11']


if __name__ == '__main__':
    main_wrapper(PID, run)
