"""C14 - the command line tool never emits more bytes than it was given (size rule; only the documented
environment override lifts it).

Decided by Cli.tla (NeverLarger, SizeRule in M |= S) and Trace_Cli.tla judging real runs: every enumerated
configuration whose target content shrinks / stays equal / grows / is empty, in every output mode incl. stdin,
with and without PYMINIFY_FORCE_BEST_EFFORT; plus byte-level sources whose UTF-8 re-encoding grows
(coding cookies, BOM, raw control characters) run through the real entry point."""
import random

from ..common import main_wrapper, sha
from .. import tlc, local, cli_run
from . import _cli

PID = 'C14'

# sources chosen so that the API result is longer / equal / shorter in *bytes* than the file
BYTE_SOURCES = [
    ('latin1-cookie-grows', b"# -*- coding: latin-1 -*-\nx='\xe9\xe9\xe9\xe9\xe9\xe9\xe9\xe9\xe9\xe9\xe9\xe9\xe9\xe9\xe9\xe9\xe9\xe9\xe9\xe9\xe9\xe9\xe9\xe9\xe9\xe9\xe9\xe9'\n"),
    ('latin1-cookie-short', b"#coding:latin-1\nx='\xe9'"),
    ('bom-equal', b"\xef\xbb\xbfx=1"),
    ('raw-tab', b"x='\t'"),
    ('raw-tabs-many', b"x='\t\t\t\t'\ny='\t'"),
    ('form-feed', b"x='\x0c'"),
    ('nul-escape', b"x='\\0'"),
    ('tiny', b"1"),
    ('empty', b""),
    ('newline-only', b"\n"),
    ('comment-only', b"#\n"),
    ('cp1252-cookie', b"# coding: cp1252\nx = '\x80\x80\x80\x80\x80\x80\x80\x80\x80\x80\x80\x80\x80\x80\x80\x80\x80\x80'\n"),
    ('utf8-nonascii', "x='\u00e9\u00e9'".encode('utf-8')),
    ('crlf', b"x=1\r\ny=2\r\n"),
    ('already-minified', b"def f(a):return a\nprint(f(1))"),
    ('in-operator-grows', b"0in x"),
    ('assert-grows', b"assert 0in x"), ('asserttrue-grows', b"self.assertTrue(0in x)"), ('debug-grows', b"if __debug__:0in x"),
    ('debug-else-grows', b"if __debug__:0in x\nelse:0in y"), ('pass-grows', b"def f():pass;0in x"), ('annot-grows', b"a:int=0in x"),
    ('docstring-grows', b"'d';0in x"), ('object-grows', b"class A(object):0in x"), ('return-grows', b"def f():\n 0in x;return None"),
    ('raise-grows', b"def f():\n 0in x;raise ValueError()"), ('import-grows', b"import a\nimport b;0in x"),
    ('hex-literal', b"x=0x10"),
    ('float-literal', b"x=1e5"),
]


# every body also behind each kind of #! line (the line is carried over by preserve_shebang, which is on by default), and #! lines alone
PREFIXES = [('', b''), ('sh:', b'#!/bin/sh\n'), ('env:', b'#!/usr/bin/env python3\n'), ('nonascii:', b'#!/opt/caf\xc3\xa9/bin/python -u\n'), ('crlf:', b'#!/bin/sh\r\n')]
SHEBANG_ONLY = [('shebang-no-newline', b'#!/bin/sh'), ('shebang-args-no-newline', b'#!/usr/bin/env python3 -u'), ('shebang-cr', b'#!/bin/sh\r'),
                ('shebang-two-newlines', b'#!/bin/sh\n\n')]


FLAGS = ['no-combine-imports', 'no-remove-pass', 'remove-literal-statements', 'no-hoist-literals', 'no-rename-locals', 'rename-globals', 'no-remove-object-base',
         'no-convert-posargs-to-args', 'no-preserve-shebang', 'remove-asserts', 'remove-debug', 'no-remove-explicit-return-none',
         'no-remove-builtin-exception-brackets', 'no-constant-folding', 'no-remove-annotations', 'no-remove-variable-annotations', 'no-remove-return-annotations',
         'no-remove-argument-annotations', 'remove-class-attribute-annotations']      # CliS.tla Flags


def byte_sources():
    out = []
    for pn, pre in PREFIXES:
        for name, body in BYTE_SOURCES:
            out.append((pn + name, pre + body))
    return out + SHEBANG_ONLY


def byte_job(job):
    """run one byte source through the real entry point in a mode; returns a Trace_Cli record with one file"""
    import os
    import shutil
    from ..common import outdir
    name, src, mode, force, via_stdin = job['name'], job['src'], job['mode'], job['force'], job['stdin']
    root = os.path.join(outdir('fs'), 'b_%s_%d' % (job['id'].replace('/', '_').replace('|', '_'), os.getpid()))
    shutil.rmtree(root, ignore_errors=True)
    os.makedirs(root)
    path = os.path.join(root, 'n0.py')
    with open(path, 'wb') as f:
        f.write(src)
    outpath = os.path.join(root, 'OUT.min')
    argv = ['-' if via_stdin else path] + ['--' + f for f in job.get('flags', [])]
    if mode == 'in_place':
        argv.append('--in-place')
    elif mode == 'output':
        argv += ['--output', outpath]
    rk = []
    res = cli_run.run_main(argv, stdin_bytes=src if via_stdin else b'', env_force=force, record_kwargs=rk)
    if rk:
        # what the API returns for the keyword arguments the tool itself passed (whatever the flags mean - that is C13's business)
        import python_minifier
        try:
            kw = dict(rk[-1])
            kw.pop('filename', None)
            api = python_minifier.minify(src, **kw).encode('utf-8')
        except BaseException:   # noqa
            api = None
    else:
        api = cli_run.api_bytes(src, {})
    with open(path, 'rb') as f:
        post = f.read()
    what = 'pre' if post == src else ('min' if api is not None and post == api else 'other')

    def classify(b):
        if b == src:
            return {'what': 'pre', 'file': 1, 'len': len(b)}
        if api is not None and b == api:
            return {'what': 'min', 'file': 1, 'len': len(b)}
        return {'what': 'other', 'file': 0, 'len': len(b)}
    outw = {'what': 'none', 'file': 0, 'len': 0}
    if os.path.exists(outpath):
        with open(outpath, 'rb') as f:
            outw = classify(f.read())
    so = res['stdout_bytes']
    sout = classify(so) if (so or (mode == 'stdout' and res['exit'] == 0)) else {'what': 'none', 'file': 0, 'len': 0}
    cls = 'invalid' if api is None else ('grows' if len(api) > len(src) else ('equal' if len(api) == len(src) else 'shrinks'))
    opened_w = any(os.path.realpath(p) == os.path.realpath(path) and ('w' in m) for p, m in res['opens'])
    rec = {'id': job['id'], 'shape': 'stdin' if via_stdin else 'one_file', 'mode': mode, 'force': force,
           'files': [{'reach': 'named', 'class': cls, 'post': what, 'readlen': len(src), 'apilen': len(api) if api is not None else 0,
                      'api_is_pre': api is not None and api == src, 'opened_w': opened_w, 'opened_r': True}],
           'exit': int(res['exit']), 'exit2': int(res['exit_script']), 'exc': res['exc'], 'outw': outw, 'sout': sout, 'order': [1], 'listed': 0}
    shutil.rmtree(root, ignore_errors=True)
    return rec


def run(args, rep):
    rng = random.Random(args.seed)
    _cli.model(rep, args.tier)
    size_classes = {'shrinks', 'grows', 'equal', 'empty'}
    cfgs, total = _cli.configs(args.tier, rng, want=lambda c: any(k in size_classes for k in c['class']))
    if args.tier == 'quick':
        cfgs = cfgs[:4000]
    cfgs += _cli.extra_configs()
    _cli.run_and_judge(rep, cfgs, 'c14:', args.seed, 'C14')
    # byte-level sources
    jobs = []
    srcs = byte_sources()
    if args.tier != 'quick':
        # seeded random short byte strings built from pieces that stress re-encoding
        pieces = [b"x=", b"'\t'", b"'\xc3\xa9'", b"1", b"\n", b";", b"y", b"'a'", b"#c\n", b"\r\n", b"0x1", b"(", b")", b" "]
        for k in range(3000):
            srcs.append(('rnd%d' % k, rng.choice([b'', b'', b'#!/bin/sh\n', b'#!/x']) + b''.join(rng.choice(pieces) for _ in range(rng.randint(0, 8)))))
    for name, src in srcs:
        for mode in ('stdout', 'output', 'in_place'):
            for force in (False, True):
                for via_stdin in (False, True):
                    if via_stdin and mode == 'in_place':
                        continue
                    jid = 'bytes:%s|%s|%s|%s' % (name, mode, force, via_stdin)
                    jobs.append({'id': jid, 'name': name, 'src': src, 'mode': mode, 'force': force, 'stdin': via_stdin})
    # every flag on its own (the size rule must not depend on what was asked for): each source, file to stdout and in place
    from .. import tlc as _tlc      # noqa
    flags = sorted(FLAGS)
    for name, src in srcs:
        if name.startswith('rnd'):
            continue
        for fl in flags:
            if args.tier == 'quick' and not (name.split(':')[-1].endswith('-grows') or name in ('tiny', 'raw-tab', 'already-minified')):
                continue
            for mode in ('stdout', 'in_place'):
                jobs.append({'id': 'bytes:%s|%s|False|False|%s' % (name, mode, fl), 'name': name, 'src': src, 'mode': mode, 'force': False, 'stdin': False, 'flags': [fl]})
    obs = local.pmap(byte_job, jobs, chunksize=8)
    # sources the interpreter rejects are not part of this property (they fail, which C15 judges)
    obs = [o for o in obs if o['files'][0]['class'] != 'invalid']
    rep.evaluations += len(obs)
    verdicts, judged = tlc.judge('Trace_Cli', 'Trace_Cli.cfg', obs, tag='C14b')
    rep.add_judged(judged)
    byid = {o['id']: o for o in obs}
    for o in obs:
        rep.nontrivial.add(sha(o['id'].split('|')[0] + o['files'][0]['class']))
    for rid, v in sorted(verdicts.items()):
        if not v[0].startswith('c14:') and not v[0].startswith('c13:'):
            continue
        o = byid[rid]
        rep.violation(key=rid, clause=v[0], what='%s read=%d api=%d written=%s/%s exit=%s' % (
            rid, o['files'][0]['readlen'], o['files'][0]['apilen'], o['outw'], o['sout'], o['exit']),
            replay={'kind': 'cli-bytes', 'id': rid, 'observed': o})
    rep.sample({'byte_source': 'raw-tab', 'observed': byid.get('bytes:raw-tab|stdout|False|False')})
    rep.rule = ('TLC-enumerated configurations containing a shrinking / equal / growing / empty target in every mode, plus stdin shapes, '
                'plus byte-level sources (cookies, BOM, raw control characters, tiny and empty inputs; each also behind 4 kinds of #! line, and #! lines alone) in every mode x override x stdin, and under each of the 19 flags on its own; '
                'non-trivial = distinct (configuration | source, size class) pairs')
    rep.extra.update({'configurations_enumerated_by_tlc': total, 'byte_sources': len(srcs),
                      'checker_cmd': 'tlc Cli.tla; tlc Trace_Cli.tla over ndjson run records'})
    rep.assumptions += ['api result computed by calling minify() in-process on the same bytes with default options']


if __name__ == '__main__':
    main_wrapper(PID, run)
