"""Input sets shared by several checks: option sets, shape bank, corpus slices, corrupted sources."""
import base64
import importlib.util
import os
import random

from .common import VERIF
from . import corpus
from .local import ALL_OFF, ALL_ON, DEFAULTS

_spec = importlib.util.spec_from_file_location('verif_shapes', os.path.join(VERIF, 'corpus', 'shapes.py'))
shapes_mod = importlib.util.module_from_spec(_spec)
_spec.loader.exec_module(shapes_mod)

OPTSETS = {'off': ALL_OFF, 'default': {}, 'all': ALL_ON}

BOOL_OPTS = ['remove_pass', 'remove_literal_statements', 'combine_imports', 'hoist_literals', 'rename_locals',
             'rename_globals', 'remove_object_base', 'convert_posargs_to_args', 'preserve_shebang', 'remove_asserts',
             'remove_debug', 'remove_explicit_return_none', 'remove_builtin_exception_brackets', 'constant_folding']
ANN_OPTS = ['remove_variable_annotations', 'remove_return_annotations', 'remove_argument_annotations',
            'remove_class_attribute_annotations']


def random_optset(rng):
    o = {k: rng.random() < 0.5 for k in BOOL_OPTS}
    o['remove_annotations'] = {k: rng.random() < 0.5 for k in ANN_OPTS}
    return o


def optset_name(o):
    bits = ''.join('1' if o.get(k, DEFAULTS.get(k, False)) else '0' for k in BOOL_OPTS)
    ra = o.get('remove_annotations', True)
    if isinstance(ra, dict):
        bits += '-' + ''.join('1' if ra.get(k, k != 'remove_class_attribute_annotations') else '0' for k in ANN_OPTS)
    else:
        bits += '-' + ('1111' if ra else '0000')
    return bits


def vt(version):
    a, b = version.split('.')[:2]
    return (int(a), int(b))


def shapes(version):
    return [('shape:' + n, s.encode('utf-8', 'surrogatepass')) for n, s in shapes_mod.shapes_for(vt(version))]


def b64(b):
    return base64.b64encode(b).decode('ascii')


CORRUPTIONS = ['drop-close', 'extra-close', 'drop-colon', 'bad-indent', 'stray-op', 'unterminated-string', 'keyword-as-name']


def corrupt(src_bytes, how, rng):
    """token-level corruption of a valid UTF-8 source; returns bytes (may still be valid: the interpreter decides)."""
    s = src_bytes.decode('utf-8', 'surrogatepass')
    def positions(chars):
        return [i for i, c in enumerate(s) if c in chars]
    if how == 'drop-close':
        ps = positions(')]}')
        if not ps:
            return None
        i = rng.choice(ps)
        return (s[:i] + s[i + 1:]).encode('utf-8', 'surrogatepass')
    if how == 'extra-close':
        ps = positions(')]}') or positions('\n')
        if not ps:
            return None
        i = rng.choice(ps)
        return (s[:i] + ')' + s[i:]).encode('utf-8', 'surrogatepass')
    if how == 'drop-colon':
        ps = [i for i in positions(':') if s[i + 1:i + 2] in ('\n', ' ')]
        if not ps:
            return None
        i = rng.choice(ps)
        return (s[:i] + s[i + 1:]).encode('utf-8', 'surrogatepass')
    if how == 'bad-indent':
        lines = s.split('\n')
        ps = [i for i, l in enumerate(lines) if l.startswith('    ') and l.strip()]
        if not ps:
            return None
        i = rng.choice(ps)
        lines[i] = '  ' + lines[i].lstrip() if rng.random() < 0.5 else '\t ' + lines[i]
        return '\n'.join(lines).encode('utf-8', 'surrogatepass')
    if how == 'stray-op':
        ps = positions('=')
        if not ps:
            return None
        i = rng.choice(ps)
        return (s[:i] + '= * ' + s[i + 1:]).encode('utf-8', 'surrogatepass')
    if how == 'unterminated-string':
        return (s + "\nx = 'abc\n").encode('utf-8', 'surrogatepass')
    if how == 'keyword-as-name':
        return (s + "\nclass = 1\n").encode('utf-8', 'surrogatepass')
    return None
