"""Abstract suites (Suite.tla) <-> concrete Python: concretise (context, environment, block) as runnable source, minify with
exactly the suite options under test, locate the block in the output and classify every statement back into the alphabet;
run input and output with optimize=0 and optimize=1."""
from __future__ import print_function

import ast

from .common import ensure_repo_on_path

ensure_repo_on_path()

STMT = {
    ('pass',): 'pass', ('litnum',): '1', ('litstr',): "'lit'", ('litbytes',): "b'lit'", ('litnone',): 'None', ('ell',): '...',
    ('imp', 'a'): 'import os', ('imp', 'b'): 'import sys', ('from', 'os', 'x'): 'from os import path', ('from', 'os', 'y'): 'from os import sep',
    ('from', 'sys', 'z'): 'from sys import argv',
    ('retnone',): 'return None', ('retbare',): 'return', ('retval',): 'return emit("rv")',
    ('assert',): 'assert emit("assert-test")',
    ('dbg',): 'if __debug__: emit("dbg")', ('dbg_else',): 'if __debug__: emit("dbg")\nelse: emit("nodbg")',
    ('dbg_is',): 'if __debug__ is True: emit("dbg2")', ('dbg_isnot',): 'if __debug__ is not False: emit("dbg3")', ('dbg_eq',): 'if __debug__ == True: emit("dbg4")',
    ('dbg_elif',): 'if __debug__: emit("dbg")\nelif emit("elif"): emit("elifbody")',
    ('dbg_chain',): 'if __debug__: emit("dbg")\nelif __debug__ is True: emit("dbg2")\nelse: emit("nodbg")',
    ('dbg_chain_noelse',): 'if __debug__: emit("dbg")\nelif __debug__ is True: emit("dbg2")',
    ('notdbg',): 'if not __debug__: emit("notdbg")', ('dbg_isfalse',): 'if __debug__ is False: emit("dbgfalse")',
    ('x_is_true',): 'if xflag is True: emit("xtrue")', ('x_eq_true',): 'if xflag == True: emit("xeq")', ('true_is_dbg',): 'if True is __debug__: emit("tdbg")',
    ('dbg_bind',): 'if __debug__: zq = emit("dbgbind")', ('assert_bind',): 'assert (zq := emit("assertbind"))',
    ('use_zq',): 'try: emit(("zq", zq))\nexcept NameError: emit("zq-unbound")',
    ('nl_zq',): '@(lambda f: f())\ndef inner():\n    nonlocal zq\n    zq = "set-by-inner"\n    emit("inner-ran")',
    ('dbg_yield',): 'if __debug__: yield emit("dbgyield")', ('ann_zq',): 'zq: int', ('dbg_global',): 'if __debug__: global zq', ('set_zq',): 'zq = "set-in-block"',
    ('annval',): 'av: int = emit("annval")', ('annnoval',): 'an: int',
    ('raise0',): 'raise ValueError()', ('raiseargs',): 'raise ValueError("a")', ('raisefrom',): 'raise ValueError() from KeyError()',
    ('raiseuser',): 'raise UserExc()', ('classobj',): 'class Inner(object): emit("inner")', ('other',): 'emit("other")', ('other2',): 'emit("other2")',
}


def indent(code, n):
    return '\n'.join('    ' * n + l for l in code.split('\n'))


GUARD = '\nexcept Exception as e: emit(("exc", type(e).__name__))'


def wrap(ctx, body):
    """returns (source, path) where path locates the block's statement list in the tree"""
    b1, b2, b3 = indent(body, 1), indent(body, 2), indent(body, 3)
    if ctx in ('module', 'module_top'):
        return body, None
    if ctx == 'function':
        return ('def fn():\n%s\nemit(("fndoc", fn.__doc__))\ntry:\n    fnresult = fn()\n    emit(("ret", "generator" if hasattr(fnresult, "send") else fnresult))%s'
                % (b1, GUARD)), ('func', 'fn')
    if ctx == 'function_if':
        return ('def fn():\n    if xflag:\n%s\n    emit("after")\ntry:\n    fnresult = fn()\n    emit(("ret", "generator" if hasattr(fnresult, "send") else fnresult))%s'
                % (b2, GUARD)), ('func-if', 'fn')
    if ctx == 'class':
        return 'try:\n    class K:\n%s\n    emit(("cls", sorted(k for k in vars(K) if not k.startswith("__")), K.__doc__))%s' % (b2, GUARD), ('class', 'K')
    if ctx == 'dataclass':
        return 'import dataclasses\ntry:\n    @dataclasses.dataclass\n    class K:\n%s\n    emit(("fields", [f.name for f in dataclasses.fields(K)]))%s' % (b2, GUARD), ('class', 'K')
    if ctx == 'dataclass_if':
        return ('import dataclasses\ntry:\n    @dataclasses.dataclass\n    class K:\n        if xflag:\n%s\n    emit(("fields", [f.name for f in dataclasses.fields(K)]))%s'
                % (b3, GUARD)), ('class-if', 'K')
    if ctx == 'dataclass_second':
        return ('import dataclasses\ndef passthrough(c): return c\ntry:\n    @passthrough\n    @dataclasses.dataclass\n    class K:\n%s\n'
                '    emit(("fields", [f.name for f in dataclasses.fields(K)]))%s' % (b2, GUARD)), ('class', 'K')
    if ctx == 'dataclass_call':
        return 'import dataclasses\ntry:\n    @dataclasses.dataclass(frozen=True)\n    class K:\n%s\n    emit(("fields", [f.name for f in dataclasses.fields(K)]))%s' % (b2, GUARD), ('class', 'K')
    if ctx == 'dataclass_name':
        return 'from dataclasses import dataclass, fields\ntry:\n    @dataclass\n    class K:\n%s\n    emit(("fields", [f.name for f in fields(K)]))%s' % (b2, GUARD), ('class', 'K')
    if ctx == 'namedtuple_name':
        return 'from typing import NamedTuple\ntry:\n    class K(NamedTuple):\n%s\n    emit(("fields", list(K._fields)))%s' % (b2, GUARD), ('class', 'K')
    if ctx == 'typeddict':
        return 'import typing\ntry:\n    class K(typing.TypedDict):\n%s\n    emit(("keys", sorted(K.__annotations__)))%s' % (b2, GUARD), ('class', 'K')
    if ctx == 'namedtuple':
        return 'import typing\ntry:\n    class K(typing.NamedTuple):\n%s\n    emit(("fields", list(K._fields)))%s' % (b2, GUARD), ('class', 'K')
    if ctx == 'dataclass_after_inner':
        return ('import dataclasses\ntry:\n    @dataclasses.dataclass\n    class K:\n        class Nested:\n            inner_attribute: int = 0\n%s\n'
                '    emit(("fields", [f.name for f in dataclasses.fields(K)]))%s' % (b2, GUARD)), ('class-skip1', 'K')
    if ctx == 'namedtuple_after_inner':
        return ('import typing\ntry:\n    class K(typing.NamedTuple):\n        class Nested:\n            inner_attribute: int = 0\n%s\n'
                '    emit(("fields", list(K._fields)))%s' % (b2, GUARD)), ('class-skip1', 'K')
    if ctx == 'class_after_dataclass':
        return ('import dataclasses\ntry:\n    class K:\n        @dataclasses.dataclass\n        class Nested:\n            inner_attribute: int = 0\n%s\n'
                '    emit(("cls", sorted(k for k in K.__dict__ if not k.startswith("__")), [f.name for f in dataclasses.fields(K.Nested)]))%s' % (b2, GUARD)), ('class-skip1', 'K')
    if ctx == 'if':
        return 'try:\n    if xflag:\n%s%s' % (b2, GUARD), ('try-first', 'body')
    if ctx == 'else':
        return 'try:\n    if not xflag: emit("then")\n    else:\n%s%s' % (b2, GUARD), ('try-first', 'orelse')
    if ctx == 'for':
        return 'try:\n    for i_ in [1, 2]:\n%s%s' % (b2, GUARD), ('try-first', 'body')
    if ctx == 'while_else':
        return 'try:\n    while False: emit("w")\n    else:\n%s%s' % (b2, GUARD), ('try-first', 'orelse')
    if ctx == 'try':
        return 'try:\n%s%s' % (b1, GUARD), ('try', 'body')
    if ctx == 'except':
        return 'try:\n    try: raise KeyError()\n    except KeyError:\n%s%s' % (b2, GUARD), ('try-first-handler', None)
    if ctx == 'finally':
        return 'try:\n    try: emit("t")\n    finally:\n%s%s' % (b2, GUARD), ('try-first', 'finalbody')
    if ctx == 'with':
        return 'import contextlib\ntry:\n    with contextlib.suppress(KeyError):\n%s%s' % (b2, GUARD), ('try-first', 'body')
    raise ValueError(ctx)


# how a module that "uses the __doc__ name" spells that use (statements appended after the block)
DOC_USE = {'load': 'emit(("doc", __doc__))', 'aug': '__doc__ += "+more"', 'store': '__doc__ = "replaced"',
           'func': 'def docreader():\n    return __doc__\nemit(("doc", docreader()))', 'del': 'del __doc__'}
DOC_USE_N = {'load': 1, 'aug': 1, 'store': 1, 'func': 2, 'del': 1}


def concretize(ctx, env, blk, doc_use='load'):
    body = '\n'.join(STMT[tuple(st)] for st in blk)
    wrapped, path = wrap(ctx, body)
    pre = 'class UserExc(Exception): pass\nxflag = True\nzq = "global-zq"\n'
    if env.get('shadow'):
        pre += 'def ValueError():\n    return KeyError("made")\n'
    post = 'emit(("gzq", zq))\n'
    if env.get('usesDoc'):
        post += DOC_USE[doc_use] + '\n'
    if env.get('tainted'):
        post += 'emit(("ev", eval("1")))\n'
    if ctx == 'module_top':
        # the block comes first (a leading string is the module docstring); helpers are defined afterwards
        src = wrapped + '\n' + pre + post
        npre = 0
    else:
        src = pre + wrapped + '\n' + post
        npre = 3 + (1 if env.get('shadow') else 0)
    return src, path, npre, len(blk)


def locate(tree, ctx, path, npre, nblk_in, npost):
    body = tree.body
    if ctx == 'module':
        return body[npre:len(body) - npost]
    if ctx == 'module_top':
        # the helpers after the block: class UserExc, xflag, zq, [ValueError], post statements
        ntail = 3 + npre_tail[0] + npost
        return body[:len(body) - ntail]
    kind, name = path
    for n in ast.walk(tree):
        if kind in ('func', 'func-if') and isinstance(n, ast.FunctionDef) and n.name == name:
            if kind == 'func':
                return n.body
            return n.body[0].body
        if kind == 'class-skip1' and isinstance(n, ast.ClassDef) and n.name == name:
            return n.body[1:]
        if kind in ('class', 'class-if') and isinstance(n, ast.ClassDef) and n.name == name:
            if kind == 'class':
                return n.body
            return n.body[0].body
    # the guarded try statement is the last Try at module level
    tries = [n for n in body if isinstance(n, ast.Try)]
    t = tries[-1]
    if kind == 'try':
        return t.body
    first = t.body[0]
    if kind == 'try-first':
        return getattr(first, name)
    if kind == 'try-first-handler':
        return first.handlers[0].body
    raise ValueError(path)


npre_tail = [0]


def _is_emit(node, tag=None):
    return (isinstance(node, ast.Call) and isinstance(node.func, ast.Name) and node.func.id == 'emit' and len(node.args) == 1
            and isinstance(node.args[0], ast.Constant) and (tag is None or node.args[0].value == tag))


def _dbg(node):
    return isinstance(node, ast.Name) and node.id == '__debug__'


def classify(st):
    """one output statement -> symbol tuple of Suite.tla (or ('unknown', dump))"""
    if isinstance(st, ast.Pass):
        return ['pass']
    if isinstance(st, ast.Expr):
        v = st.value
        if isinstance(v, ast.Constant):
            if v.value is Ellipsis:
                return ['ell']
            if v.value is None:
                return ['litnone']
            if isinstance(v.value, bool):
                return ['unknown', 'bool']
            if isinstance(v.value, int):
                return ['zero'] if v.value == 0 else ['litnum']
            if isinstance(v.value, str):
                return ['litstr']
            if isinstance(v.value, bytes):
                return ['litbytes']
        if _is_emit(v):
            t = v.args[0].value
            return {'other': ['other'], 'other2': ['other2'], 'nodbg': ['nodbg']}.get(t, ['unknown', 'emit:%s' % t])
    if isinstance(st, ast.Import):
        names = [a.name for a in st.names]
        if all(n in ('os', 'sys') for n in names) and all(a.asname is None for a in st.names):
            return ['imp'] + ['a' if n == 'os' else 'b' for n in names]
    if isinstance(st, ast.ImportFrom) and st.level == 0 and st.module in ('os', 'sys') and all(a.asname is None for a in st.names):
        m = {'path': 'x', 'sep': 'y', 'argv': 'z'}
        if all(a.name in m for a in st.names):
            return ['from', st.module] + [m[a.name] for a in st.names]
    if isinstance(st, ast.Return):
        if st.value is None:
            return ['retbare']
        if isinstance(st.value, ast.Constant) and st.value.value is None:
            return ['retnone']
        if _is_emit(st.value, 'rv'):
            return ['retval']
    if isinstance(st, ast.Assert) and _is_emit(st.test, 'assert-test') and st.msg is None:
        return ['assert']
    if isinstance(st, ast.Assert) and st.msg is None and isinstance(st.test, ast.NamedExpr) and st.test.target.id == 'zq' and _is_emit(st.test.value, 'assertbind'):
        return ['assert_bind']
    if (isinstance(st, ast.If) and _dbg(st.test) and not st.orelse and len(st.body) == 1 and isinstance(st.body[0], ast.Assign)
            and ast.dump(st.body[0].targets[0]) == ast.dump(ast.Name(id='zq', ctx=ast.Store())) and len(st.body[0].targets) == 1 and _is_emit(st.body[0].value, 'dbgbind')):
        return ['dbg_bind']
    if isinstance(st, ast.If) and ast.dump(st) == ast.dump(ast.parse('def f():\n ' + STMT[('dbg_yield',)]).body[0].body[0]):
        return ['dbg_yield']
    if isinstance(st, ast.If) and ast.dump(st) == ast.dump(ast.parse(STMT[('dbg_global',)]).body[0]):
        return ['dbg_global']
    if isinstance(st, ast.Assign) and ast.dump(st) == ast.dump(ast.parse(STMT[('set_zq',)]).body[0]):
        return ['set_zq']
    if isinstance(st, ast.Try) and ast.dump(st) == ast.dump(ast.parse(STMT[('use_zq',)]).body[0]):
        return ['use_zq']
    if isinstance(st, ast.FunctionDef) and st.name == 'inner' and ast.dump(st) == ast.dump(ast.parse(STMT[('nl_zq',)]).body[0]):
        return ['nl_zq']
    if isinstance(st, ast.If):
        t = st.test
        one = len(st.body) == 1 and isinstance(st.body[0], ast.Expr) and _is_emit(st.body[0].value)
        tag = st.body[0].value.args[0].value if one else None
        if _dbg(t) and tag == 'dbg':
            if not st.orelse:
                return ['dbg']
            if len(st.orelse) == 1 and isinstance(st.orelse[0], ast.Expr) and _is_emit(st.orelse[0].value, 'nodbg'):
                return ['dbg_else']
            if len(st.orelse) == 1 and isinstance(st.orelse[0], ast.Expr) and isinstance(st.orelse[0].value, ast.Constant) and st.orelse[0].value.value == 0 \
                    and type(st.orelse[0].value.value) is int:
                return ['dbg_else0']
            if len(st.orelse) == 1 and classify(st.orelse[0]) == ['elif_if']:
                return ['dbg_elif']
            if len(st.orelse) == 1 and isinstance(st.orelse[0], ast.If) and ast.dump(st.orelse[0]) == ast.dump(ast.parse(STMT[('dbg_chain',)]).body[0].orelse[0]):
                return ['dbg_chain']
            if len(st.orelse) == 1 and isinstance(st.orelse[0], ast.If) and ast.dump(st.orelse[0]) == ast.dump(ast.parse(STMT[('dbg_chain_noelse',)]).body[0].orelse[0]):
                return ['dbg_chain_noelse']
        if isinstance(t, ast.Call) and _is_emit(t, 'elif') and tag == 'elifbody' and not st.orelse:
            return ['elif_if']
        if not st.orelse and isinstance(t, ast.Compare) and len(t.ops) == 1:
            l, op, r = t.left, t.ops[0], t.comparators[0]
            cv = r.value if isinstance(r, ast.Constant) else 'n/a'
            if _dbg(l) and isinstance(op, ast.Is) and cv is True and tag == 'dbg2':
                return ['dbg_is']
            if _dbg(l) and isinstance(op, ast.IsNot) and cv is False and tag == 'dbg3':
                return ['dbg_isnot']
            if _dbg(l) and isinstance(op, ast.Eq) and cv is True and tag == 'dbg4':
                return ['dbg_eq']
            if _dbg(l) and isinstance(op, ast.Is) and cv is False and tag == 'dbgfalse':
                return ['dbg_isfalse']
            if isinstance(l, ast.Name) and l.id == 'xflag' and isinstance(op, ast.Is) and cv is True and tag == 'xtrue':
                return ['x_is_true']
            if isinstance(l, ast.Name) and l.id == 'xflag' and isinstance(op, ast.Eq) and cv is True and tag == 'xeq':
                return ['x_eq_true']
            if isinstance(l, ast.Constant) and l.value is True and isinstance(op, ast.Is) and _dbg(r) and tag == 'tdbg':
                return ['true_is_dbg']
        if not st.orelse and isinstance(t, ast.UnaryOp) and isinstance(t.op, ast.Not) and _dbg(t.operand) and tag == 'notdbg':
            return ['notdbg']
    if isinstance(st, ast.AnnAssign) and isinstance(st.target, ast.Name) and st.target.id == 'zq' and st.value is None:
        if isinstance(st.annotation, ast.Name) and st.annotation.id == 'int':
            return ['ann_zq']
        if isinstance(st.annotation, ast.Constant) and st.annotation.value == 0:
            return ['annzero_zq']
    if isinstance(st, ast.AnnAssign) and isinstance(st.target, ast.Name):
        if st.target.id == 'av' and st.value is not None and _is_emit(st.value, 'annval') and isinstance(st.annotation, ast.Name) and st.annotation.id == 'int':
            return ['annval']
        if st.target.id == 'an' and st.value is None:
            if isinstance(st.annotation, ast.Name) and st.annotation.id == 'int':
                return ['annnoval']
            if isinstance(st.annotation, ast.Constant) and st.annotation.value == 0:
                return ['annzero']
    if isinstance(st, ast.Assign) and len(st.targets) == 1 and isinstance(st.targets[0], ast.Name) and st.targets[0].id == 'av' and _is_emit(st.value, 'annval'):
        return ['assign']
    if isinstance(st, ast.Raise):
        def form(x):
            if isinstance(x, ast.Name):
                return 'name:' + x.id
            if isinstance(x, ast.Call) and isinstance(x.func, ast.Name):
                return 'call%d:%s' % (len(x.args), x.func.id)
            return '?'
        e, c = form(st.exc) if st.exc else None, form(st.cause) if st.cause else None
        table = {('call0:ValueError', None): ['raise0'], ('name:ValueError', None): ['raise0_nb'], ('call1:ValueError', None): ['raiseargs'],
                 ('call0:UserExc', None): ['raiseuser'], ('call0:ValueError', 'call0:KeyError'): ['raisefrom'],
                 ('name:ValueError', 'call0:KeyError'): ['raisefrom_nb_exc'], ('call0:ValueError', 'name:KeyError'): ['raisefrom_nb_cause'],
                 ('name:ValueError', 'name:KeyError'): ['raisefrom_nb_both']}
        if (e, c) in table:
            return table[(e, c)]
    if isinstance(st, ast.ClassDef) and st.name == 'Inner' and len(st.body) == 1 and isinstance(st.body[0], ast.Expr) and _is_emit(st.body[0].value, 'inner'):
        if len(st.bases) == 1 and isinstance(st.bases[0], ast.Name) and st.bases[0].id == 'object':
            return ['classobj']
        if not st.bases:
            return ['classnoobj']
    return ['unknown', ast.dump(st)[:60]]


def run(src, optimize, doc=False):
    log = []
    ns = {'emit': lambda v: (log.append(repr(v)), True)[1], '__name__': 'suiteprog'}
    try:
        exec(compile(src, 'suiteprog', 'exec', optimize=optimize), ns)
        exc = ''
    except BaseException as e:  # noqa
        exc = type(e).__name__
    if doc:
        log.append('__doc__=%r' % (ns.get('__doc__', '<unbound>'),))
    return '|'.join(log) + '#' + exc


OPTMAP = {'remove_pass': 'remove_pass', 'remove_literal_statements': 'remove_literal_statements', 'combine_imports': 'combine_imports',
          'remove_object_base': 'remove_object_base', 'remove_explicit_return_none': 'remove_explicit_return_none',
          'remove_builtin_exception_brackets': 'remove_builtin_exception_brackets', 'remove_asserts': 'remove_asserts', 'remove_debug': 'remove_debug'}


def observe(job):
    """job: {id, ctx, env, blk, opts (list of Suite.tla option names)}"""
    import python_minifier
    from python_minifier.transforms.remove_annotations_options import RemoveAnnotationsOptions
    ctx, env, blk, opts = job['ctx'], job['env'], job['blk'], set(job['opts'])
    doc_use = job.get('doc_use', 'load')
    src, path, npre, nblk = concretize(ctx, env, blk, doc_use)
    try:
        compile(src, 'in', 'exec')
    except SyntaxError as e:
        return {'id': job['id'], 'skip': 'input-does-not-compile:' + str(e)[:60]}
    kw = dict(hoist_literals=False, rename_locals=False, rename_globals=False, convert_posargs_to_args=False, constant_folding=False)
    for o, k in OPTMAP.items():
        kw[k] = o in opts
    kw['remove_annotations'] = RemoveAnnotationsOptions(remove_variable_annotations='ann_variable' in opts, remove_return_annotations=False,
                                                       remove_argument_annotations=False, remove_class_attribute_annotations='ann_class' in opts)
    rec = {'id': job['id'], 'ctx': ctx, 'env': env, 'blk': blk, 'opts': sorted(opts), 'outcome': 'return', 'out_blk': [], 'located': True,
           'rest_same': True, 'run0_in': '', 'run0_out': '', 'run1_in': '', 'run1_out': ''}
    try:
        out = python_minifier.minify(src, **kw)
    except BaseException as e:  # noqa
        rec['outcome'] = 'raise:' + type(e).__name__
        return rec
    rec['_src'], rec['_out'] = src, out
    try:
        t = ast.parse(out)
        npost = 1 + (DOC_USE_N[doc_use] if env.get('usesDoc') else 0) + (1 if env.get('tainted') else 0)
        npre_tail[0] = 1 if env.get('shadow') else 0
        stmts = locate(t, ctx, path, npre, nblk, npost)
        rec['out_blk'] = [classify(s) for s in stmts]
    except Exception as e:  # noqa
        rec['located'] = False
        rec['msg'] = type(e).__name__ + ':' + str(e)[:60]
    doc = bool(env.get('usesDoc'))
    rec['run0_in'], rec['run0_out'] = run(src, 0, doc), run(out, 0, doc)
    rec['run1_in'], rec['run1_out'] = run(src, 1, doc), run(out, 1, doc)
    return rec
