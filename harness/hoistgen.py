"""Cases of Hoist.tla <-> concrete Python: a fixed program whose 17 places hold either the literal under test or a unique filler;
minify with hoisting on, find every place in the output by structure, see which places now hold a name, where that name is assigned,
and run input and output."""
from __future__ import print_function

import ast

from .common import ensure_repo_on_path

ensure_repo_on_path()

TEMPLATE = '''"""module doc"""
from __future__ import annotations
def deco(v):
    emit(('deco', v))
    return lambda f: f
def docfn():
    {P17}
    return 17
class K:
    """class doc"""
    attr = {P0}
    ann_attr: {P21} = 0
    def m(self, a={P1}):
        """method doc"""
        emit(('m', a, {P2}))
        return a
def outer(p={P3}):
    """outer doc"""
    @deco({P4})
    def inner(q={P5}, *, kw={P18}):
        emit(('inner', q, [{P6} for _ in [1]], (lambda: {P7})(), f"{{{P8}}}", f"{P16}{{q}}", (lambda d={P19}: d)(), [_ for _ in [{P20}]], kw))
        return q
    x = {P9}
    class L:
        y = {P10}
    {P15}
    emit(('outer', p, x, L.y))
    return inner()
LITMOD = {P11}
if LITMOD is not Ellipsis:
    z = {P12}
emit(('mod', K.attr, K().m(), outer(), LITMOD, z, docfn(), docfn.__doc__, sorted(K.__annotations__.items())))
match LITMOD:
    case {P13}:
        emit('matched')
    case _:
        emit('nomatch')
class S:
    __slots__ = ({P14}, 'other_slot')
emit(('slots', S.__slots__))
'''
NPLACES = 22
LITS = {
    'str': ("'hello world'", 'hello world', lambda i: "'fill%d'" % i),
    'bytes': ("b'hello world'", b'hello world', lambda i: "b'fill%d'" % i),
    'none': ('None', None, lambda i: '%d' % (100 + i)),
    'true': ('True', True, lambda i: '%d' % (100 + i)),
}


# other spellings of an occurrence: an expression another transform rewrites into the literal before the hoister runs
# (constant folding makes a new True node out of `True&True`); a pattern can only hold the plain literal
SPELL = {'folded': {'true': '(True&True)'}}


def template(variant):
    """variants of the skeleton: 'adv' = the class attributes carry the names the hoister hands out (`_A` at module level, `A` in a function), so an alias
    used in that class body would be captured; 'fut2' = the annotations future import is the second of two separate future statements"""
    t = TEMPLATE
    if variant in ('adv', 'adv+fut2'):
        t = t.replace('    attr = {P0}', '    _A = {P0}').replace('K.attr', 'K._A').replace('        y = {P10}', '        A = {P10}').replace('L.y', 'L.A')
    if variant in ('fut2', 'adv+fut2'):
        t = t.replace('from __future__ import annotations\n', 'from __future__ import division\nfrom __future__ import annotations\n')
    return t


def build(uses, lit, spell='plain', variant=None):
    text, value, fill = LITS[lit]
    plain = text
    text = SPELL.get(spell, {}).get(lit, text)
    vals = {}
    for i in range(NPLACES):
        if i == 16:
            # the literal text part of an f-string (only meaningful for str)
            vals['P16'] = 'hello world' if (i in uses and lit == 'str') else 'fill16'
        elif i == 14 and lit in ('none', 'true', 'bytes'):
            vals['P14'] = "'slot_a'"           # __slots__ entries must be strings
        elif i == 13:
            vals['P13'] = plain if i in uses else '12345'
        elif i == 21:
            # an annotation that is kept as text: an expression there would be folded (annotations are a reflective view), so always the plain literal
            vals['P21'] = plain if i in uses else fill(i)
        elif i == 17:
            vals['P17'] = text if (i in uses and lit == 'str') else "'docfn doc'"
        else:
            vals['P%d' % i] = text if i in uses else fill(i)
    return template(variant).format(**vals)


def applicable(uses, lit):
    """places that cannot hold this literal kind are dropped from the case"""
    u = set(uses)
    if lit != 'str':
        u.discard(16)
        u.discard(14)
        u.discard(17)
    return sorted(u)


def _first(body, cls, skip=0):
    k = 0
    for st in body:
        if isinstance(st, cls):
            if k == skip:
                return st
            k += 1
    raise LookupError(cls.__name__)


def places(tree):
    """expression node at each place, located by structure (names may have been changed)"""
    mod = tree.body
    cls = [st for st in mod if isinstance(st, ast.ClassDef)]
    K, S = cls[0], cls[-1]
    funcs = [st for st in mod if isinstance(st, ast.FunctionDef)]
    docfn, outer = funcs[1], funcs[2]
    m = _first(K.body, ast.FunctionDef)
    inner = _first(outer.body, ast.FunctionDef)
    L = _first(outer.body, ast.ClassDef)

    def assigns(body, is_class=False):
        # in module / function bodies the assignments in the head of the body (before the first other statement) are inserted
        # aliases or re-bound parameters, never statements of the template
        out_ = []
        head = not is_class
        for st in body:
            if head and (isinstance(st, ast.Assign) or _is_doc_or_future(st)):
                continue
            head = False
            if isinstance(st, ast.Assign):
                out_.append(st)
        return out_

    def emit_call(body):
        for st in body:
            if isinstance(st, ast.Expr) and isinstance(st.value, ast.Call) and getattr(st.value.func, 'id', None) == 'emit':
                return st.value
        raise LookupError('emit')
    out = {}
    out[0] = assigns(K.body, True)[0].value
    out[21] = [st for st in K.body if isinstance(st, ast.AnnAssign)][0].annotation
    out[1] = m.args.defaults[0]
    out[2] = emit_call(m.body).args[0].elts[2]
    out[3] = outer.args.defaults[0]
    out[4] = inner.decorator_list[0].args[0]
    out[5] = inner.args.defaults[0]
    tup = emit_call(inner.body).args[0]
    out[6] = tup.elts[2].elt
    out[7] = tup.elts[3].func.body
    out[8] = tup.elts[4].values[0].value
    out[16] = tup.elts[5].values[0]
    out[18] = inner.args.kw_defaults[0]
    out[19] = tup.elts[6].func.args.defaults[0]
    out[20] = tup.elts[7].generators[0].iter.elts[0]
    out[9] = assigns(outer.body)[0].value
    out[10] = assigns(L.body, True)[0].value
    # P15: the expression statement between class L and the emit call
    idx = outer.body.index(L)
    st15 = outer.body[idx + 1]
    out[15] = st15.value if isinstance(st15, ast.Expr) else None
    mod_assigns = assigns(mod)
    out[11] = mod_assigns[0].value
    iff = _first(mod, ast.If)
    out[12] = assigns(iff.body, True)[0].value
    match = _first(mod, ast.Match)
    pat = match.cases[0].pattern
    out[13] = pat.value if isinstance(pat, ast.MatchValue) else pat
    out[14] = assigns(S.body, True)[0].value.elts[0]
    d0 = [st for st in docfn.body if not isinstance(st, ast.Assign)][0]
    out[17] = d0.value if isinstance(d0, ast.Expr) else None
    return out, {1: tree, 2: K, 3: m, 4: outer, 5: inner, 8: L, 9: S, 10: docfn}


def _is_doc_or_future(st):
    return (isinstance(st, ast.Expr) and isinstance(st.value, ast.Constant) and isinstance(st.value.value, str)) or \
           (isinstance(st, ast.ImportFrom) and st.module == '__future__')


def run(src):
    log = []
    ns = {'emit': lambda v: log.append(repr(v)), '__name__': 'hoistprog'}
    try:
        exec(compile(src, 'hoistprog', 'exec'), ns)
        exc = ''
    except BaseException as e:  # noqa
        exc = type(e).__name__
    return '|'.join(log) + '#' + exc


def observe(job):
    """job: {id, uses, lit, opts}"""
    import python_minifier
    uses = applicable(job['uses'], job['lit'])
    text, value, _f = LITS[job['lit']]
    src = build(set(uses), job['lit'], job.get('spell', 'plain'), job.get('variant'))
    try:
        compile(src, 'in', 'exec')
    except SyntaxError as e:
        return {'id': job['id'], 'skip': 'input-does-not-compile:' + str(e)[:80]}
    rec = {'id': job['id'], 'uses': uses, 'lit': job['lit'], 'outcome': 'return', 'projected': True, 'replaced': [], 'aliases': [], 'doc_ok': True,
           'future_ok': True, 'compiles': True, 'run_equal': True}
    try:
        out = python_minifier.minify(src, remove_annotations=False, **job['opts'])
    except BaseException as e:  # noqa
        rec['outcome'] = 'raise:' + type(e).__name__
        return rec
    rec['_src'], rec['_out'] = src, out
    try:
        compile(out, 'out', 'exec')
    except SyntaxError:
        rec['compiles'] = False
    try:
        t = ast.parse(out)
        # alias assignments: `Name = <the literal>` in the head of the module / a function body
        cand = {}
        for node in ast.walk(t):
            if isinstance(node, (ast.Module, ast.FunctionDef)):
                for k, st in enumerate(node.body):
                    if _is_doc_or_future(st):
                        continue
                    if not isinstance(st, ast.Assign):
                        break
                    if len(st.targets) == 1 and isinstance(st.targets[0], ast.Name) and isinstance(st.value, ast.Constant) \
                            and type(st.value.value) is type(value) and st.value.value == value:
                        cand.setdefault(st.targets[0].id, []).append((node, k, st))
        pl, scopes = places(t)
        inv = {id(v): k for k, v in scopes.items()}
        holders = {}
        for p, node in pl.items():
            if node is None:
                continue
            if isinstance(node, ast.Name) and p in uses:
                rec['replaced'].append(p)
                holders.setdefault(node.id, []).append(p)
        rec['replaced'].sort()
        for name, ps in sorted(holders.items()):
            sites = cand.get(name, [])
            if not sites:
                rec['aliases'].append({'name': name, 'scope': 1, 'uses': ps, 'count': 0, 'first': False, 'value_same': False, 'rebound': False})
                continue
            node, k, st = sites[0]
            # first executable position: only docstrings, __future__ imports and other alias assignments may precede it
            first = True
            for prev in node.body[:k]:
                if isinstance(prev, ast.Expr) and isinstance(prev.value, ast.Constant) and isinstance(prev.value.value, str):
                    continue
                if isinstance(prev, ast.ImportFrom) and prev.module == '__future__':
                    continue
                if isinstance(prev, ast.Assign) and len(prev.targets) == 1 and isinstance(prev.targets[0], ast.Name) and \
                        (isinstance(prev.value, ast.Constant) or isinstance(prev.value, ast.Name)):
                    continue
                first = False
            stores = 0
            stack = list(node.body)
            while stack:
                n2 = stack.pop()
                if isinstance(n2, (ast.FunctionDef, ast.AsyncFunctionDef, ast.Lambda, ast.ClassDef, ast.ListComp, ast.SetComp, ast.DictComp, ast.GeneratorExp)):
                    for n3 in ast.walk(n2):
                        if isinstance(n3, (ast.Global, ast.Nonlocal)) and name in n3.names:
                            stores += 2
                    continue
                if isinstance(n2, ast.Name) and n2.id == name and isinstance(n2.ctx, (ast.Store, ast.Del)):
                    stores += 1
                stack.extend(ast.iter_child_nodes(n2))
            rec['aliases'].append({'name': name, 'scope': inv.get(id(node), 0), 'uses': ps, 'count': len(sites), 'first': first,
                                   'value_same': type(st.value.value) is type(value) and st.value.value == value,
                                   'rebound': stores > len(sites)})
        rec['doc_ok'] = bool(t.body and isinstance(t.body[0], ast.Expr) and isinstance(t.body[0].value, ast.Constant) and t.body[0].value.value == 'module doc')
        rec['future_ok'] = bool(len(t.body) > 1 and isinstance(t.body[1], ast.ImportFrom) and t.body[1].module == '__future__')
        if job.get('variant') in ('fut2', 'adv+fut2') and not job['opts'].get('combine_imports', True):
            rec['future_ok'] = rec['future_ok'] and isinstance(t.body[2], ast.ImportFrom) and t.body[2].module == '__future__'
        for sc in (2, 3, 4):   # class K, K.m, outer keep their docstrings first
            b = scopes[sc].body
            if not (isinstance(b[0], ast.Expr) and isinstance(b[0].value, ast.Constant) and isinstance(b[0].value.value, str) and b[0].value.value.endswith(' doc')):
                rec['doc_ok'] = False
    except Exception as e:  # noqa
        rec['projected'] = False
        rec['msg'] = type(e).__name__ + ':' + str(e)[:80]
    if rec['compiles']:
        rec['run_equal'] = run(src) == run(out)
    return rec
