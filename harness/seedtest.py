"""Run checks against a seeded breaking change: apply /verif/seeded/<id>/patch.diff to /repo's working tree, run the quick commands of the
named checks, undo the change straight afterwards (git checkout), restore the evidence files of the clean tree, and record which checks
reported a violation in /verif/seeded/<id>/detection.json.

usage: python -m harness.seedtest <seeded dir> [--checks C03,C08] [--tier quick]
"""
import argparse
import json
import os
import shutil
import subprocess
import sys
import time

from .common import VERIF, REPO, EVIDENCE


def sh(cmd, **kw):
    return subprocess.run(cmd, shell=True, stdout=subprocess.PIPE, stderr=subprocess.STDOUT, **kw)


def main():
    ap = argparse.ArgumentParser()
    ap.add_argument('dir')
    ap.add_argument('--checks', default='')
    ap.add_argument('--tier', default='quick')
    ap.add_argument('--seed', default='0')
    a = ap.parse_args()
    d = os.path.abspath(a.dir)
    patch = os.path.join(d, 'patch.diff')
    meta_p = os.path.join(d, 'meta.json')
    meta = json.load(open(meta_p)) if os.path.exists(meta_p) else {}
    checks = [c for c in a.checks.split(',') if c] or [meta.get('property')]
    st = sh('git -C %s status --porcelain --untracked-files=no' % REPO).stdout.decode().strip()
    if st:
        print('refusing: /repo has uncommitted changes:\n' + st)
        sys.exit(2)
    backup = os.path.join(VERIF, 'out', 'evidence_backup_%d' % os.getpid())
    shutil.copytree(EVIDENCE, backup)
    r = sh('git -C %s apply %s' % (REPO, patch))
    if r.returncode != 0:
        print('patch does not apply:', r.stdout.decode())
        shutil.rmtree(backup)
        sys.exit(2)
    results = {}
    try:
        for c in checks:
            t0 = time.time()
            env = dict(os.environ, VERIF_SEED=a.seed, VERIF_TIER=a.tier)
            p = sh('/venv/bin/python -W ignore -m harness.checks.%s --tier %s' % (c, a.tier), cwd=VERIF, env=env)
            out = p.stdout.decode('utf-8', 'replace')
            viol = [l for l in out.splitlines() if l.startswith('VIOLATION')]
            clauses = sorted(set(l.strip().split(' ')[0] for l in out.splitlines() if l.startswith('  clause=')))
            results[c] = {'exit': p.returncode, 'violations': len(viol), 'clauses': clauses[:8], 'wall_s': round(time.time() - t0, 1),
                          'tail': out.splitlines()[-1] if out.strip() else ''}
            print('%s: exit=%d violations=%d %s' % (c, p.returncode, len(viol), clauses[:4]))
            sys.stdout.flush()
    finally:
        sh('git -C %s checkout -- .' % REPO)
        for f in os.listdir(backup):
            shutil.copy(os.path.join(backup, f), os.path.join(EVIDENCE, f))
        shutil.rmtree(backup)
    det = {'tier': a.tier, 'results': results, 'detected_by': sorted(c for c, v in results.items() if v['exit'] == 1)}
    old = {}
    dp = os.path.join(d, 'detection.json')
    if os.path.exists(dp):
        old = json.load(open(dp))
        old.setdefault('results', {}).update(results)
        old['detected_by'] = sorted(c for c, v in old['results'].items() if v['exit'] == 1)
        det = old
    with open(dp, 'w') as f:
        json.dump(det, f, indent=1, sort_keys=True)
    print('detected by:', det['detected_by'])


if __name__ == '__main__':
    main()
