"""Run TLC: exhaustive model checking, exporting enumerated inputs, and judging observation records.

All scratch goes under /verif/out/tlc (never /tmp).  Any TLC failure that is not a reported
invariant/property violation raises MachineryError (exit 2 of the check), never a VIOLATION.
"""
from __future__ import print_function

import json
import os
import re
import shutil
import subprocess
import time
import uuid
from concurrent.futures import ThreadPoolExecutor

from .common import SPEC, VERIF, MachineryError, NCPU, outdir

JAR = '/opt/veriftools/tla/tla2tools.jar'
DEPS = '/opt/veriftools/tla/CommunityModules-deps.jar'


# many small JVMs in parallel contend badly in this sandbox: keep each one small and run at most four
JUDGE_JVM = ('-XX:+UseSerialGC', '-Xmx3g', '-XX:ActiveProcessorCount=2')


class TLCResult(object):
    def __init__(self):
        self.ok = False
        self.distinct = 0
        self.generated = 0
        self.depth = 0
        self.wall = 0.0
        self.stdout = ''
        self.violated = []      # names of violated invariants / properties
        self.printed = []       # raw PrintT lines
        self.uncovered = []     # actions with zero count under -coverage
        self.returncode = None


def _java_cmd(extra_jvm=()):
    gc = [] if any('GC' in x for x in extra_jvm) else ['-XX:+UseParallelGC']
    return ['java'] + gc + ['-Xss16m'] + list(extra_jvm) + ['-cp', JAR + ':' + DEPS, 'tlc2.TLC']


def run_tlc(module, cfg, workers=None, timeout=3600, coverage=False, env=None, simulate=None, depth=None,
            extra=(), jvm=(), deadlock=False):
    """Run TLC on spec/<module>.tla with spec/<cfg>. Returns TLCResult (ok = no error of any kind)."""
    meta = os.path.join(outdir('tlc'), 'm_' + uuid.uuid4().hex[:12])
    cmd = _java_cmd(jvm) + ['-metadir', meta, '-noGenerateSpecTE', '-config', cfg,
                            '-workers', str(workers or NCPU)]
    if coverage:
        cmd += ['-coverage', '1']
    if not deadlock:
        cmd += ['-deadlock']
    if simulate:
        cmd += ['-simulate', simulate]
    if depth:
        cmd += ['-depth', str(depth)]
    cmd += list(extra) + [module]
    e = dict(os.environ)
    if env:
        e.update(env)
    t0 = time.time()
    try:
        p = subprocess.run(cmd, cwd=SPEC, env=e, stdout=subprocess.PIPE, stderr=subprocess.STDOUT, timeout=timeout)
        out = p.stdout.decode('utf-8', 'replace')
        rc = p.returncode
    except subprocess.TimeoutExpired as ex:
        shutil.rmtree(meta, ignore_errors=True)
        raise MachineryError('TLC timed out after %ss on %s/%s' % (timeout, module, cfg))
    finally:
        shutil.rmtree(meta, ignore_errors=True)
    r = TLCResult()
    r.wall = time.time() - t0
    r.stdout = out
    r.returncode = rc
    m = None
    for m in re.finditer(r'(\d+) states generated, (\d+) distinct states found', out):
        pass
    if m:
        r.generated, r.distinct = int(m.group(1)), int(m.group(2))
    m = re.search(r'The depth of the complete state graph search is (\d+)', out)
    if m:
        r.depth = int(m.group(1))
    for m in re.finditer(r'Invariant (\S+) is violated', out):
        r.violated.append(m.group(1))
    for m in re.finditer(r'Action property (\S+) is violated', out):
        r.violated.append(m.group(1))
    if 'Temporal properties were violated' in out:
        r.violated.append('<temporal>')
    r.ok = (rc == 0 and 'Error:' not in out and not r.violated)
    if coverage:
        # "<Name line a, col b to line c, col d of module M>: distinct:generated"; interim reports may precede the final one
        last = {}
        for m in re.finditer(r'^<(\w+) line \d+, col \d+ to line \d+, col \d+ of module (\w+)>: (\d+):(\d+)', out, re.M):
            last[m.group(1)] = int(m.group(4))
        r.uncovered = sorted(k for k, v in last.items() if v == 0)
    return r


def check_model(module, cfg, **kw):
    """Exhaustive model checking run that must pass; returns TLCResult.
    A violated invariant is returned (ok False, .violated set); anything else is a machinery failure."""
    r = run_tlc(module, cfg, **kw)
    if not r.ok and not r.violated:
        tail = '\n'.join(r.stdout.splitlines()[-40:])
        raise MachineryError('TLC failed on %s/%s (rc=%s):\n%s' % (module, cfg, r.returncode, tail))
    return r


_JSON_LINE = re.compile(r'^"(\{.*\})"$')


def export(module, cfg, workers=1, timeout=3600, env=None):
    """Run an export configuration: every line PrintT(ToJson(rec)) is parsed and returned, with the TLCResult."""
    r = run_tlc(module, cfg, workers=workers, timeout=timeout, env=env)
    if not r.ok:
        tail = '\n'.join(r.stdout.splitlines()[-40:])
        raise MachineryError('TLC export failed on %s/%s:\n%s' % (module, cfg, tail))
    recs = []
    for line in r.stdout.splitlines():
        m = _JSON_LINE.match(line)
        if m:
            recs.append(json.loads(json.loads(line)))
    return recs, r


_VERDICT = re.compile(r'^<<"VERDICT", (.*)>>$')


def _parse_tla_value(s):
    """Parse the small subset of TLA+ values that verdict lines contain: strings, ints, nested tuples."""
    s = s.strip()
    vals = []
    i = 0
    n = len(s)
    while i < n:
        c = s[i]
        if c == '"':
            j = i + 1
            buf = []
            while s[j] != '"':
                if s[j] == '\\':
                    j += 1
                buf.append(s[j])
                j += 1
            vals.append(''.join(buf))
            i = j + 1
        elif c.isdigit() or c == '-':
            j = i + 1
            while j < n and s[j].isdigit():
                j += 1
            vals.append(int(s[i:j]))
            i = j
        elif s.startswith('TRUE', i):
            vals.append(True)
            i += 4
        elif s.startswith('FALSE', i):
            vals.append(False)
            i += 5
        elif s.startswith('<<', i):
            depth = 0
            j = i
            while True:
                if s.startswith('<<', j):
                    depth += 1
                    j += 2
                elif s.startswith('>>', j):
                    depth -= 1
                    j += 2
                    if depth == 0:
                        break
                elif s[j] == '"':
                    j += 1
                    while s[j] != '"':
                        if s[j] == '\\':
                            j += 1
                        j += 1
                    j += 1
                else:
                    j += 1
            vals.append(_parse_tla_value(s[i + 2:j - 2]))
            i = j
        else:
            i += 1
    return vals


def judge(module, cfg, records, shards=None, timeout=3600, tag='judge', env=None, keep=False):
    """Have TLC judge observation records with the trace spec `module` (one state per record).

    records: list of JSON-able dicts, each with a unique 'id'.  The trace spec prints
    <<"VERDICT", id, clause, ...>> for each record it rejects and must satisfy its POSTCONDITION
    (every record consumed).  Returns (verdicts: dict id -> [clause, ...extra], judged_count).
    """
    if not records:
        return {}, 0
    shards = shards or min(4, max(1, (len(records) + 19999) // 20000))
    # TLC cannot follow a behaviour of 65 536 or more states and a shard is one behaviour (one state per record): more shards, four at a time
    shards = max(shards, (len(records) + 49999) // 50000)
    d = outdir('tlc', tag + '_' + uuid.uuid4().hex[:8])
    files = []
    per = (len(records) + shards - 1) // shards
    for k in range(shards):
        chunk = records[k * per:(k + 1) * per]
        if not chunk:
            continue
        path = os.path.join(d, 'obs_%d.ndjson' % k)
        with open(path, 'w') as f:
            for rec in chunk:
                f.write(json.dumps(rec, sort_keys=True))
                f.write('\n')
        files.append((path, len(chunk)))

    def one(pf):
        path, n = pf
        e = {'TRACE_FILE': path}
        if env:
            e.update(env)
        r = run_tlc(module, cfg, workers=1, timeout=timeout, env=e, jvm=JUDGE_JVM)
        if not r.ok:
            tail = '\n'.join(r.stdout.splitlines()[-30:])
            raise MachineryError('TLC judge %s failed on %s (rc=%s):\n%s' % (module, path, r.returncode, tail))
        # one state per record + the initial state
        if r.distinct != n + 1:
            raise MachineryError('TLC judge %s consumed %d of %d records of %s' % (module, r.distinct - 1, n, path))
        out = {}
        for line in r.stdout.splitlines():
            line = line.strip()
            if line.startswith('"[\\"VERDICT\\"') or line.startswith('"[\\"MEANING\\"'):
                vals = json.loads(json.loads(line))
                out[str(vals[1])] = vals[2:]
        return out, n

    verdicts = {}
    judged = 0
    with ThreadPoolExecutor(max_workers=4) as ex:
        for out, n in ex.map(one, files):
            verdicts.update(out)
            judged += n
    if not keep:
        shutil.rmtree(d, ignore_errors=True)
    return verdicts, judged


def sany(module):
    p = subprocess.run(['java', '-cp', JAR + ':' + DEPS, 'tla2sany.SANY', module], cwd=SPEC,
                       stdout=subprocess.PIPE, stderr=subprocess.STDOUT)
    out = p.stdout.decode('utf-8', 'replace')
    return p.returncode == 0 and 'Semantic errors' not in out and 'Parse Error' not in out, out


def spec_closure(module):
    """paths of the module and of every module of the spec directory it EXTENDS or INSTANCEs, transitively"""
    import re
    seen = {}
    todo = [module]
    while todo:
        m = todo.pop()
        path = os.path.join(SPEC, m + '.tla')
        if m in seen or not os.path.exists(path):
            continue
        seen[m] = path
        with open(path) as fh:
            text = fh.read()
        for line in re.findall(r'^\s*EXTENDS\s+(.*)$', text, flags=re.M):
            todo += [x.strip() for x in line.split(',')]
        todo += re.findall(r'INSTANCE\s+(\w+)', text)
    return list(seen.values())


def cached_export(module, cfg, **kw):
    """export() whose result is kept under /verif/out/cache, keyed by the content of the spec directory's .tla files and the cfg
    (several checks share the large program enumerations; the cache is rebuilt whenever a specification changes)"""
    import glob
    import gzip
    import hashlib
    h = hashlib.sha256()
    for f in sorted(spec_closure(module)) + [os.path.join(SPEC, cfg)]:
        with open(f, 'rb') as fh:
            h.update(fh.read())
    d = os.path.join(VERIF, 'out', 'cache')          # shared by side runs too
    if not os.path.isdir(d):
        os.makedirs(d)
    # drop results of older versions of this specification
    for old in glob.glob(os.path.join(d, '%s_%s_*.json.gz' % (module, cfg.replace('.cfg', '')))):
        if h.hexdigest()[:16] not in old:
            try:
                os.remove(old)
            except OSError:
                pass
    path = os.path.join(d, '%s_%s_%s.json.gz' % (module, cfg.replace('.cfg', ''), h.hexdigest()[:16]))
    if os.path.exists(path):
        try:
            with gzip.open(path, 'rt') as fh:
                data = json.load(fh)
            return data['recs'], data['distinct']
        except Exception:
            pass
    recs, r = export(module, cfg, **kw)
    tmp = path + '.%d.tmp' % os.getpid()
    with gzip.open(tmp, 'wt') as fh:
        json.dump({'recs': recs, 'distinct': r.distinct}, fh)
    os.rename(tmp, path)
    return recs, r.distinct
