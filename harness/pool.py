"""Drive harness/worker.py in one or more interpreter versions, many processes per version."""
from __future__ import print_function

import json
import os
import select
import subprocess
import threading

from .common import REPO_SRC, VERIF, NCPU, interpreter, MachineryError

WORKER = os.path.join(VERIF, 'harness', 'worker.py')


class _Proc(object):
    def __init__(self, exe, hashseed='0'):
        env = dict(os.environ)
        env['VERIF_REPO_SRC'] = REPO_SRC
        env['PYTHONHASHSEED'] = hashseed
        env['PYTHONDONTWRITEBYTECODE'] = '1'
        env['PYTHONIOENCODING'] = 'utf-8'
        env.pop('PYTHONPATH', None)
        env.pop('PYMINIFY_FORCE_BEST_EFFORT', None)
        self.p = subprocess.Popen([exe, '-B', WORKER], stdin=subprocess.PIPE, stdout=subprocess.PIPE,
                                  stderr=subprocess.DEVNULL, env=env, cwd=os.path.join(VERIF, 'out'))

    def call(self, req, timeout):
        try:
            self.p.stdin.write((json.dumps(req) + '\n').encode('ascii'))
            self.p.stdin.flush()
        except (BrokenPipeError, OSError):
            return None
        r, _, _ = select.select([self.p.stdout], [], [], timeout)
        if not r:
            return 'timeout'
        line = self.p.stdout.readline()
        if not line:
            return None
        return json.loads(line.decode('utf-8'))

    def close(self):
        try:
            self.p.stdin.close()
        except Exception:
            pass
        try:
            self.p.kill()
        except Exception:
            pass
        self.p.wait()


def run_requests(version, requests, procs=None, timeout=60, hashseed='0'):
    """Send every request (dict with 'op' and a unique 'id') to workers of `version`.
    Returns dict id -> response.  A crashed or hung worker yields {'worker_error': ...} for that request only."""
    exe = interpreter(version)
    if exe is None:
        raise MachineryError('interpreter %s not installed' % version)
    if not os.path.isdir(os.path.join(VERIF, 'out')):
        os.makedirs(os.path.join(VERIF, 'out'))
    procs = min(procs or NCPU, max(1, len(requests)))
    lock = threading.Lock()
    it = iter(requests)
    results = {}

    def work():
        pr = _Proc(exe, hashseed)
        try:
            while True:
                with lock:
                    try:
                        req = next(it)
                    except StopIteration:
                        return
                res = pr.call(req, timeout)
                if res is None or res == 'timeout':
                    pr.close()
                    results[req['id']] = {'id': req['id'], 'worker_error': 'crash' if res is None else 'timeout'}
                    pr = _Proc(exe, hashseed)
                else:
                    results[req['id']] = res
        finally:
            pr.close()

    threads = [threading.Thread(target=work) for _ in range(procs)]
    for t in threads:
        t.start()
    for t in threads:
        t.join()
    return results
