#!/bin/sh
# thorough tier of every check against the repository snapshot of this run ($VP_RUN_REPO), one after the other
export VERIF_REPO=${VP_RUN_REPO:-/repo}
echo "repo under test: $VERIF_REPO $(git -C $VERIF_REPO log --oneline | head -1)"
for P in C16 C13 C14 C17 C06 C11 C12 C08 C02 C05 C07 C15 C09 C10 C04 C01 C03; do
  echo "=== $P $(date +%H:%M:%S)"
  /venv/bin/python -W ignore -m harness.checks.$P --tier thorough 2>&1 | grep "^VIOL\|^KNOWN\|^$P\|^  clause\|rror" | cut -c1-300 | head -60
  echo "exit-of-pipeline=$?"
done
echo THOROUGHDONE
