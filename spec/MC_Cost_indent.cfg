SPECIFICATION Spec
CONSTANT KnownIndentation = FALSE
INVARIANT CostSound
CHECK_DEADLOCK FALSE
