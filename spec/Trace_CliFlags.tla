--------------------------- MODULE Trace_CliFlags ---------------------------
(* C13: TLC judges the keyword arguments that the real parse_args() + do_minify() hand to minify()
   (observed with a recording stand-in for minify) against the documented meaning of the flags,
   and, in export mode, prints Meaning(F) for the flag sets the harness is about to run end to end
   so that the expected API call is derived from this specification and not from the code. *)
EXTENDS CliS, Json, IOUtils, SequencesExt

Obs == ndJsonDeserialize(IOEnv.TRACE_FILE)

SeqSet(s) == {s[k] : k \in 1..Len(s)}
\* names meant by the preserve-list occurrences: items are given with their surrounding blanks removed
Names(occ) == SeqSet(FlattenItems(occ)) \ {""}

Verdict(r) ==
    LET F == SeqSet(r.flags)
        M == Meaning(F)
    IN
    IF FlagsRejected(F) THEN (IF r.called THEN "c13:rejected-flag-combination-reached-minify" ELSE
                              IF r.exit = 0 THEN "c13:rejected-flag-combination-exit-0" ELSE "ok")
    ELSE IF ~r.called THEN "c13:valid-flags-did-not-reach-minify"
    ELSE IF \E o \in DOMAIN M : r.kwargs[o] # M[o] THEN
            "c13:flag-moves-wrong-option:" \o (CHOOSE o \in DOMAIN M : r.kwargs[o] # M[o])
    ELSE IF SeqSet(r.pl_seen) \ {""} # Names(r.pl_occ) THEN "c13:preserve-locals-split-wrong"
    ELSE IF SeqSet(r.pg_seen) \ {""} # Names(r.pg_occ) THEN "c13:preserve-globals-split-wrong"
    \* every module of a run is minified under the same names
    ELSE IF "calls" \in DOMAIN r /\ r.calls > 1 /\ SeqSet(r.pl_seen2) \ {""} # Names(r.pl_occ) THEN "c13:preserve-locals-lost-for-a-later-module"
    ELSE IF "calls" \in DOMAIN r /\ r.calls > 1 /\ SeqSet(r.pg_seen2) \ {""} # Names(r.pg_occ) THEN "c13:preserve-globals-lost-for-a-later-module"
    ELSE "ok"

Export(r) == PrintT(ToJson(<<"MEANING", r.id, Meaning(SeqSet(r.flags)), FlagsRejected(SeqSet(r.flags)),
                            SetToSeq(Names(r.pl_occ)), SetToSeq(Names(r.pg_occ))>>))

VARIABLE i
Init == i = 1
Next == /\ i <= Len(Obs)
        /\ IF "called" \in DOMAIN Obs[i]
              THEN LET v == Verdict(Obs[i]) IN (v # "ok") => PrintT(ToJson(<<"VERDICT", Obs[i].id, v>>))
              ELSE Export(Obs[i])
        /\ i' = i + 1
Spec == Init /\ [][Next]_i
=============================================================================
