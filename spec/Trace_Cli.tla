----------------------------- MODULE Trace_Cli -----------------------------
(* TLC as judge of observed runs of the real pyminify entry point against CliS.tla.
   One record per run: the abstract configuration TLC enumerated (Cli.tla's initial states), and what
   the run did to every file, to --output and to stdout, its exit status and the order of reads. *)
EXTENDS CliS, Json, IOUtils

Obs == ndJsonDeserialize(IOEnv.TRACE_FILE)

Verdict(r) ==
    LET F == 1..Len(r.files)
        f(i) == r.files[i]
        Tg == {i \in F : IsTarget(f(i).reach)}
        visited == {r.order[k] : k \in 1..Len(r.order)}
        last == IF Len(r.order) = 0 THEN 0 ELSE r.order[Len(r.order)]
        WillFail(i) == Fails(f(i).class) \/ (f(i).class = "readonly" /\ r.mode = "in_place")
        rejected == ArgsRejected(r.shape, r.mode)
        \* two ways to start the tool: `python -m python_minifier` (exit) and the pyminify console script, sys.exit(main()) (exit2)
        exit2 == IF "exit2" \in DOMAIN r THEN r.exit2 ELSE r.exit
        \* --output names the source file itself: the user asked for the source to be rewritten; it is then judged like a target of an in-place run
        selfout == IF "self_output" \in DOMAIN r THEN r.self_output ELSE FALSE
        ok0 == r.exit = 0 /\ exit2 = 0
        any0 == r.exit = 0 \/ exit2 = 0
        wrote == \/ \E i \in F : f(i).post # "pre" \/ f(i).opened_w
                 \/ r.outw.what # "none" \/ r.sout.what # "none"
        Beneficial(i) == r.force \/ f(i).apilen <= f(i).readlen
        \* what an emitted item must be, by the size rule
        ItemOK(it) == /\ it.what \in {"pre", "min"}
                      /\ it.file \in Tg
                      /\ (it.what = "min" => Beneficial(it.file) \/ f(it.file).api_is_pre)
                      /\ (it.what = "pre" => ~Beneficial(it.file) \/ f(it.file).api_is_pre)
                      /\ NeverLargerOK(f(it.file).readlen, it.len, r.force)
    IN
    IF rejected THEN (IF any0 THEN "c13:invalid-arguments-accepted"
                      ELSE IF wrote THEN "c13:rejected-after-writing" ELSE "ok")
    ELSE IF \E i \in F : ~IsTarget(f(i).reach) /\ (f(i).opened_w \/ f(i).post # "pre") THEN "c15:non-target-written"
    ELSE IF \E i \in F : ~IsTarget(f(i).reach) /\ f(i).opened_r /\ f(i).reach # "named" THEN "c15:non-target-read"
    ELSE IF \E i \in F : f(i).post = "other" THEN "c15:file-holds-neither-original-nor-minified"
    ELSE IF \E i \in F : ~PostAllowed(f(i).reach, f(i).class, f(i).post, r.force) /\ ~f(i).api_is_pre THEN "c15:post-state-not-allowed"
    ELSE IF \E i \in Tg : f(i).post = "min" /\ ~Beneficial(i) /\ ~f(i).api_is_pre THEN "c14:file-grew-in-place"
    \* a run that reports success has no failing target: it either reached it or stopped earlier at another one
    ELSE IF (\E i \in Tg : WillFail(i)) /\ any0 THEN "c15:failure-not-reported"
    ELSE IF (\E i \in visited : WillFail(i)) /\ ~WillFail(last) THEN "c15:continued-after-failure"
    ELSE IF (\E i \in visited : WillFail(i)) /\ (\E j \in Tg \ visited : f(j).post # "pre" \/ f(j).opened_w) THEN "c15:unvisited-file-touched"
    ELSE IF (\A i \in Tg : ~WillFail(i)) /\ ~ok0 THEN "c13:valid-run-failed"
    ELSE IF (\A i \in Tg : ~WillFail(i)) /\ visited # Tg THEN "c15:targets-not-all-visited"
    \* (a target that is read twice is not by itself against the property; what the file holds afterwards is judged above)
    \* exactness (C13 subject to the size rule) for the files of a successful run
    ELSE IF r.mode = "in_place" /\ r.exit = 0 /\ (\E i \in Tg : Beneficial(i) /\ f(i).post # "min" /\ ~f(i).api_is_pre) THEN "c13:in-place-result-is-not-the-api-result"
    ELSE IF r.mode = "in_place" /\ (r.outw.what # "none" \/ r.sout.what # "none") THEN "c15:in-place-run-wrote-elsewhere"
    ELSE IF r.mode = "output" /\ r.sout.what # "none" THEN "c13:output-run-wrote-to-stdout"
    ELSE IF r.mode = "stdout" /\ r.outw.what # "none" THEN "c13:stdout-run-wrote-a-file"
    ELSE IF r.mode = "output" /\ r.exit = 0 /\ ~ItemOK(r.outw) THEN "c14:output-file-violates-size-rule-or-is-not-the-api-result"
    ELSE IF r.mode = "stdout" /\ r.exit = 0 /\ ~ItemOK(r.sout) THEN "c14:stdout-violates-size-rule-or-is-not-the-api-result"
    ELSE IF r.mode # "in_place" /\ ~selfout /\ (\E i \in F : f(i).post # "pre" \/ f(i).opened_w) THEN "c15:source-modified-without-in-place"
    ELSE "ok"

VARIABLE i
Init == i = 1
Next == /\ i <= Len(Obs)
        /\ LET v == Verdict(Obs[i]) IN (v # "ok") => PrintT(ToJson(<<"VERDICT", Obs[i].id, v>>))
        /\ i' = i + 1
Spec == Init /\ [][Next]_i
=============================================================================
