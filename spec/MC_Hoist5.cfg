SPECIFICATION Spec
CONSTANT MaxUses = 5
INVARIANT HoistSound
INVARIANT Deepest
CHECK_DEADLOCK FALSE
