-------------------------------- MODULE Suite --------------------------------
(* The enumeration of cases for SuiteS.tla (alphabet, contexts, S steps, Allowed, M): every block up to MaxLen in every
   context under every subset of the options relevant to it; TLC checks MOut \in Allowed and properties of S. *)
EXTENDS SuiteS

CONSTANTS MaxLen,
          CoreOnly      \* TRUE: one representative symbol per rewrite family and six contexts (keeps blocks of length 3 tractable)
CoreSymbols == {<<"pass">>, <<"litstr">>, <<"litnum">>, <<"imp", "a">>, <<"imp", "b">>, <<"from", "os", "x">>, <<"from", "os", "y">>, <<"assert">>, <<"dbg">>,
                <<"dbg_else">>, <<"annval">>, <<"annnoval">>, <<"raise0">>, <<"raisefrom">>, <<"classobj">>, <<"retnone">>, <<"retbare">>, <<"other">>,
                <<"dbg_bind">>, <<"use_zq">>}
CoreContexts == {"module_top", "function", "class", "dataclass", "if", "except"}
SymbolsUsed == IF CoreOnly THEN CoreSymbols ELSE Symbols

RECURSIVE Blocks(_)
Blocks(n) == IF n = 0 THEN {<<>>} ELSE LET B == Blocks(n - 1) IN B \cup {Append(b, st) : b \in {x \in B : Len(x) = n - 1}, st \in SymbolsUsed}

RelevantTo(st) ==
    CASE st = <<"pass">> -> {"remove_pass"}
      [] st \in Literals -> {"remove_literal_statements"}
      [] st[1] \in {"imp", "from"} -> {"combine_imports"}
      [] st \in {<<"annval">>, <<"annnoval">>, <<"ann_zq">>} -> {"ann_variable", "ann_class"}
      [] st = <<"classobj">> -> {"remove_object_base"}
      [] st \in Returns -> {"remove_explicit_return_none"}
      [] st \in {<<"raise0">>, <<"raiseargs">>, <<"raisefrom">>, <<"raiseuser">>} -> {"remove_builtin_exception_brackets"}
      [] st \in {<<"assert">>, <<"assert_bind">>} -> {"remove_asserts"}
      [] st \in {<<"dbg_bind">>, <<"dbg_global">>, <<"dbg_yield">>} -> {"remove_debug"}
      [] st \in DebugTruthy \cup DebugOther \cup {<<"dbg_else">>, <<"dbg_elif">>, <<"dbg_chain">>} -> {"remove_debug"}
      [] OTHER -> {}
Relevant(blk) == UNION { RelevantTo(blk[k]) : k \in DOMAIN blk }

VARIABLES ctx, env, blk, opts
vars == <<ctx, env, blk, opts>>
Init == /\ ctx \in (IF CoreOnly THEN CoreContexts ELSE Contexts)
        /\ blk \in Blocks(MaxLen) /\ blk # <<>> /\ WellFormed(ctx, blk)
        /\ env \in Env
        /\ (env.usesDoc => (ctx = "module_top" /\ \E k \in DOMAIN blk : blk[k] \in Literals))
        /\ (env.shadow => \E k \in DOMAIN blk : blk[k] \in {<<"raise0">>, <<"raisefrom">>})
        /\ (env.tainted => \E k \in DOMAIN blk : blk[k] \in {<<"raise0">>, <<"raisefrom">>})
        /\ opts \in {r : r \in SUBSET Relevant(blk)} \cup {r \cup (Opt \ Relevant(blk)) : r \in SUBSET Relevant(blk)}
Next == UNCHANGED vars
Spec == Init /\ [][Next]_vars

\* M |= S
MInAllowed == KF_D27(opts, ctx, blk) \/ MOut(opts, ctx, env, blk) \in Allowed(opts, ctx, env, blk)
\* S is consistent with the interpreter here: in a function a name that is looked up keeps a binding (checked against CPython by the runs)
BinderKept == \A b \in Allowed(opts, ctx, env, blk) :
                 (InFunction(ctx) /\ (\E k \in DOMAIN blk : blk[k] \in Binders) /\ (\E k \in DOMAIN blk : blk[k] \in ZqUsers))
                 => \E k \in DOMAIN b : b[k] \in Binders
\* properties of S itself
OffMeansUntouched == opts = {} => Allowed(opts, ctx, env, blk) = {blk}
NonEmpty == \A b \in Allowed(opts, ctx, env, blk) : b # <<>> \/ IsModule(ctx) \/ HasSibling(ctx)
Flatten(b) == LET imps == SelectSeq(b, LAMBDA st : st[1] = "imp") IN imps
RECURSIVE Aliases(_)
Aliases(b) == IF b = <<>> THEN <<>> ELSE (IF Head(b)[1] = "imp" THEN Tail(Head(b)) ELSE IF Head(b)[1] = "from" THEN Tail(Tail(Head(b))) ELSE <<>>) \o Aliases(Tail(b))
ImportOrderPreserved == \A b \in Allowed(opts, ctx, env, blk) : Aliases(b) = Aliases(blk)

\* for tying the harness's eraser (harness/suitecanon.py) to S: what S allows here, and what it would allow only with every option on
EmitAllowed == PrintT(ToJson([ctx |-> ctx, env |-> env, blk |-> blk, opts |-> opts, allowed |-> Allowed(opts, ctx, env, blk),
                              wider |-> Allowed(Opt, ctx, env, blk) \ Allowed(opts, ctx, env, blk)]))
EmitCase == PrintT(ToJson([ctx |-> ctx, env |-> env, blk |-> blk, opts |-> opts, m |-> MOut(opts, ctx, env, blk)]))
=============================================================================
