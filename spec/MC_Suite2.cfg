SPECIFICATION Spec
CONSTANT MaxLen = 2
INVARIANT MInAllowed
INVARIANT OffMeansUntouched
INVARIANT NonEmpty
INVARIANT ImportOrderPreserved
CHECK_DEADLOCK FALSE
