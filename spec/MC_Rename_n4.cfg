SPECIFICATION Spec
CONSTANTS N = 4
 NNames = 1
 FullY = TRUE
 Pep709 = FALSE
 Skeleton = FALSE
 ChainOnly = FALSE
 AnyOrder = TRUE
 AllOptions = FALSE
INVARIANT NoCapture
INVARIANT StaysCompilable
INVARIANT InterfaceKept
INVARIANT Frozen
INVARIANT Preserved
PROPERTY AssignedMonotone
CHECK_DEADLOCK FALSE
