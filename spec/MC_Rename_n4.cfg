SPECIFICATION Spec
CONSTANTS N = 4
 NNames = 1
 FullY = TRUE
 AllOptions = FALSE
INVARIANT NoCapture
INVARIANT StaysCompilable
INVARIANT InterfaceKept
INVARIANT Frozen
INVARIANT Preserved
PROPERTY AssignedMonotone
CHECK_DEADLOCK FALSE
