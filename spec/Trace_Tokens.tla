---------------------------- MODULE Trace_Tokens ----------------------------
(* TLC judges the token adjacencies the real TokenPrinter produced (recorded by an outside wrapper while the enumerated
   expressions, statements and modules were printed): a pair written without a separator must not join (TokensS.Joins). *)
EXTENDS TokensS, Json, IOUtils
Obs == ndJsonDeserialize(IOEnv.TRACE_FILE)
Verdict(r) == IF ~SepOK(r.a, r.b, r.sep) THEN "c02:adjacent-tokens-join:" \o r.a.kind \o "+" \o r.b.kind ELSE "ok"
VARIABLE i
TInit == i = 1
TNext == /\ i <= Len(Obs)
         /\ LET v == Verdict(Obs[i]) IN (v # "ok") => PrintT(ToJson(<<"VERDICT", Obs[i].id, v>>))
         /\ i' = i + 1
TSpec == TInit /\ [][TNext]_i
=============================================================================
