SPECIFICATION Spec
CONSTANTS N = 3
 NNames = 2
 FullY = FALSE
 Pep709 = FALSE
 Skeleton = FALSE
 ChainOnly = FALSE
 AnyOrder = TRUE
 AllOptions = FALSE
INVARIANT NoCapture
INVARIANT StaysCompilable
INVARIANT InterfaceKept
INVARIANT Frozen
INVARIANT Preserved
PROPERTY AssignedMonotone
CHECK_DEADLOCK FALSE
