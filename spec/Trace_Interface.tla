--------------------------- MODULE Trace_Interface ---------------------------
(* C04 on real modules: the externally visible names of a module before and after minification,
   projected per category by the harness (sorted sequences), judged as (multi)set equalities. *)
EXTENDS Naturals, Sequences, FiniteSets, TLC, Json, IOUtils

Obs == ndJsonDeserialize(IOEnv.TRACE_FILE)
SeqSet(q) == {q[k] : k \in 1..Len(q)}

Verdict(r) ==
    IF r.attrs_in # r.attrs_out THEN "c04:attribute-names-changed"
    ELSE IF r.kwargs_in # r.kwargs_out THEN "c04:keyword-argument-names-changed"
    ELSE IF r.imports_in # r.imports_out THEN "c04:imported-names-changed"
    ELSE IF r.classattrs_in # r.classattrs_out THEN "c04:class-body-names-changed"
    ELSE IF r.params_in # r.params_out THEN "c04:keyword-callable-parameter-names-changed"
    ELSE IF r.dunders_in # r.dunders_out THEN "c04:dunder-names-changed"
    ELSE IF SeqSet(r.unbound_in) # SeqSet(r.unbound_out) THEN "c04:names-used-but-never-bound-changed"
    ELSE IF ~r.rename_globals /\ ~(SeqSet(r.modbound_in) \subseteq SeqSet(r.modbound_out)) THEN "c04:module-level-name-lost"
    ELSE IF ~r.rename_globals /\ \E k \in 1..Len(r.added) : ~r.added[k].underscore THEN "c04:new-module-level-name-without-underscore"
    ELSE "ok"

VARIABLE i
Init == i = 1
Next == /\ i <= Len(Obs)
        /\ LET v == Verdict(Obs[i]) IN (v # "ok") => PrintT(ToJson(<<"VERDICT", Obs[i].id, v>>))
        /\ i' = i + 1
Spec == Init /\ [][Next]_i
=============================================================================
