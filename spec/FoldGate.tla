------------------------------ MODULE FoldGate ------------------------------
(* enumeration of cases for FoldGateS.tla; see there *)
EXTENDS FoldGateS
VARIABLE e
Init == e \in Cases
Next == UNCHANGED e
Spec == Init /\ [][Next]_e

\* M |= S : everything the folder evaluates is a closed literal expression
GateSound == \A v \in Visit(e) : \A x \in v[2] : Closed(x)
\* ... also the second time, when it evaluates the text of the value it computed
TextGateSound == \A c \in ResultClasses : MEvaluatesText(c) => TextClosed(c)
\* and it evaluates something only where S allows an evaluation at all
EvalOnlyIfAllowed == (\E v \in Visit(e) : v[2] # {}) => HasClosedBin(e)
EmitCase == PrintT(ToJson([e |-> e, may_eval |-> HasClosedBin(e), m_evals |-> (\E v \in Visit(e) : v[2] # {})]))
=============================================================================
