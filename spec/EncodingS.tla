----------------------------- MODULE EncodingS -----------------------------
(* C16: the space of source encodings / line ends / shebang lines and what the property expects for
   each configuration (S).  No variables.  Codecs are CPython's: the specification indexes the
   configuration space and states the expectation; identity of the parsed program is an observation
   computed by the interpreter. *)
EXTENDS Naturals, FiniteSets, Sequences, TLC

Forms    == {"text", "bytes"}
Cookies  == {"none", "utf-8", "latin-1", "cp1252", "iso-8859-15", "ascii",
             \* spellings the tokenizer normalises itself (get_normal_name): an end-of-line suffix in the emacs style, `_` for `-`, upper case
             "utf-8-unix", "latin-1-dos", "ISO_8859_15", "Latin_1"}
Newlines == {"LF", "CRLF", "CR"}
Shebangs == {"none", "plain", "with-args", "non-ascii", "second-line-only", "hash-only", "space-before",
             "with-formfeed", "with-x85", "with-linesep", "with-cookie", "lookalike"}     \* (lookalike: non-ASCII text whose bytes in the declared codec also read as other UTF-8 text; with-cookie: the #! line itself carries a PEP 263 declaration)
             \* characters str.splitlines() treats as line ends but the tokenizer does not
Configs  == [form : Forms, bom : BOOLEAN, cookie : Cookies, newline : Newlines, shebang : Shebangs, preserve : BOOLEAN]

\* a real shebang is a first line that starts with the two characters #!
HasShebang(c) == c.shebang \in {"plain", "with-args", "non-ascii", "with-formfeed", "with-x85", "with-linesep", "with-cookie", "lookalike"}

\* with a BOM the source does not start with #! (bytes) / starts with U+FEFF (text): left unconstrained
Constrained(c) == ~c.bom

\* the first line of the output must be exactly the shebang line (without its line terminator)
MustReproduce(c) == Constrained(c) /\ HasShebang(c) /\ c.preserve
\* the output must not begin with #!
MustBeAbsent(c)  == Constrained(c) /\ (~HasShebang(c) \/ ~c.preserve)

\* a cookie other than UTF-8 together with a BOM is rejected by the interpreter itself
InLanguage(c) == /\ ~(c.bom /\ c.cookie \notin {"none", "utf-8", "utf-8-unix"})
                 /\ (c.shebang = "with-cookie" => (c.cookie = "none" /\ ~c.bom))      \* the declaration on the #! line is the only one
=============================================================================
