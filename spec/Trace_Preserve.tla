---------------------------- MODULE Trace_Preserve ----------------------------
(* C10 on generated modules: every name the user asked to preserve (list, single string, literal
   __all__ entries, the AWS Lambda entrypoint) occurs in the output exactly where it occurred in the
   input, and asking to preserve changes nothing but names. *)
EXTENDS Naturals, Sequences, FiniteSets, TLC, Json, IOUtils

Obs == ndJsonDeserialize(IOEnv.TRACE_FILE)

Verdict(r) ==
    IF r.outcome # "return" THEN "c10:minify-raised:" \o r.outcome
    ELSE IF \E k \in 1..Len(r.names) : r.names[k].count_in # r.names[k].count_out THEN
        "c10:preserved-name-respelled:" \o r.names[CHOOSE k \in 1..Len(r.names) : r.names[k].count_in # r.names[k].count_out].name
    ELSE IF ~r.same_shape THEN "c10:preserving-a-name-changed-more-than-names"
    ELSE IF r.ran /\ r.run_in # r.run_out THEN "c10:behaviour-differs"
    ELSE "ok"

VARIABLE i
Init == i = 1
Next == /\ i <= Len(Obs)
        /\ LET v == Verdict(Obs[i]) IN (v # "ok") => PrintT(ToJson(<<"VERDICT", Obs[i].id, v>>))
        /\ i' = i + 1
Spec == Init /\ [][Next]_i
=============================================================================
