SPECIFICATION Spec
CONSTANT Pep709 = TRUE
CHECK_DEADLOCK FALSE
