------------------------------ MODULE CliFlags ------------------------------
(* C13, static part: the keyword arguments that __main__.do_minify() passes to minify(), transcribed
   from the `dest=` names / store actions of parse_args() and the call in do_minify(), equal the
   documented meaning (CliS!Meaning) for all 2^19 sets of boolean flags.  Checked as an ASSUME. *)
EXTENDS CliS

\* C13 (static part): the keyword arguments __main__.do_minify passes, transcribed from its
\* `dest=` names and the call in do_minify(), equal the documented meaning for all 2^19 flag sets
MDest(F, flag, default) == IF flag \in F THEN ~default ELSE default
MKwargs(F) ==
    LET ra == MDest(F, "no-remove-annotations", TRUE) IN
    [o \in SimpleOpts \cup AnnOpts |->
        CASE o = "combine_imports" -> MDest(F, "no-combine-imports", TRUE)
          [] o = "remove_pass" -> MDest(F, "no-remove-pass", TRUE)
          [] o = "remove_literal_statements" -> MDest(F, "remove-literal-statements", FALSE)
          [] o = "hoist_literals" -> MDest(F, "no-hoist-literals", TRUE)
          [] o = "rename_locals" -> MDest(F, "no-rename-locals", TRUE)
          [] o = "rename_globals" -> MDest(F, "rename-globals", FALSE)
          [] o = "remove_object_base" -> MDest(F, "no-remove-object-base", TRUE)
          [] o = "convert_posargs_to_args" -> MDest(F, "no-convert-posargs-to-args", TRUE)
          [] o = "preserve_shebang" -> MDest(F, "no-preserve-shebang", TRUE)
          [] o = "remove_asserts" -> MDest(F, "remove-asserts", FALSE)
          [] o = "remove_debug" -> MDest(F, "remove-debug", FALSE)
          [] o = "remove_explicit_return_none" -> MDest(F, "no-remove-explicit-return-none", TRUE)
          [] o = "remove_builtin_exception_brackets" -> MDest(F, "no-remove-builtin-exception-brackets", TRUE)
          [] o = "constant_folding" -> MDest(F, "no-constant-folding", TRUE)
          [] o = "remove_variable_annotations" -> IF ra = FALSE THEN FALSE ELSE MDest(F, "no-remove-variable-annotations", TRUE)
          [] o = "remove_return_annotations" -> IF ra = FALSE THEN FALSE ELSE MDest(F, "no-remove-return-annotations", TRUE)
          [] o = "remove_argument_annotations" -> IF ra = FALSE THEN FALSE ELSE MDest(F, "no-remove-argument-annotations", TRUE)
          [] o = "remove_class_attribute_annotations" -> IF ra = FALSE THEN FALSE ELSE MDest(F, "remove-class-attribute-annotations", FALSE)]
FlagsMeanDocs == \A F \in SUBSET Flags : MKwargs(F) = Meaning(F)
ASSUME FlagsMeanDocs
\* each flag controls its own option and no other: adding one flag changes at most the options it names
OwnOptionOnly == \A F \in SUBSET Flags : \A g \in Flags \ F :
    LET a == Meaning(F) b == Meaning(F \cup {g}) IN
    \A o \in DOMAIN a : a[o] # b[o] =>
        \/ (o \in SimpleOpts /\ OptFlag[o][1] = g)
        \/ (o \in AnnOpts /\ (AnnKinds[o][1] = g \/ g = "no-remove-annotations"))
ASSUME OwnOptionOnly
VARIABLE x
Init == x = 0
Next == UNCHANGED x
=============================================================================
