SPECIFICATION Spec
CONSTANT MaxUses = 3
INVARIANT EmitCase
CHECK_DEADLOCK FALSE
