SPECIFICATION Spec
CONSTANT MaxLen = 4
INVARIANT ClosedLiteral
INVARIANT MiniExact
CHECK_DEADLOCK FALSE
