INIT Init
NEXT Stutter
CONSTANTS N = 5
 NNames = 2
 FullY = FALSE
 Pep709 = TRUE
 Skeleton = TRUE
 ChainOnly = FALSE
 AnyOrder = FALSE
 AllOptions = FALSE
INVARIANT EmitProgram
CHECK_DEADLOCK FALSE
