SPECIFICATION Spec
CONSTANT MaxUses = 3
INVARIANT HoistSound
INVARIANT Deepest
CHECK_DEADLOCK FALSE
