------------------------------ MODULE FoldGateS -----------------------------
(* C12 (with C07): WHICH expressions the constant folder may hand to eval().

   An expression is a tree: <<"leaf", kind>>, <<"un", op, e>>, <<"bin", op, l, r>>.
   S: only a closed literal expression may be evaluated: no name, call, attribute or f-string anywhere
      inside it (evaluating those would run code taken from the input); so minifying  x = e  may run
      eval() only if e contains a binary operation that is closed.
   M: FoldConstants.visit_BinOp as written: children are visited (folded) first; the node is evaluated
      only if both children are then number / True / False / None leaves and the operator is not
      Div or Pow.  A folded child becomes a number leaf, a name constant, or a unary minus on a number
      (negative results) - or stays as it is when the result would not be shorter.
   TLC checks that every expression M evaluates is closed (GateSound), and emits every case for replay:
   the real minify() runs under the audit-hook monitor on  x = e  and Trace_FoldGate.tla judges whether an
   eval happened where S allows none. *)
EXTENDS Naturals, Sequences, FiniteSets, TLC, Json

\* inf / imag / infimag: number literals whose arithmetic leaves the finite numbers (1e999, 2j, 1e999j)
Leaves  == {"num", "inf", "imag", "infimag", "true", "none", "str", "bytes", "ellipsis", "name", "call", "attr", "fstr"}
Open    == {"name", "call", "attr", "fstr"}                 \* leaves whose evaluation runs input code
UnOps   == {"uadd", "usub", "invert", "not"}
BinOps  == {"Add", "Sub", "Mult", "Div", "FloorDiv", "Mod", "Pow", "LShift", "RShift", "BitOr", "BitXor", "BitAnd", "MatMult"}

Leaf(k) == <<"leaf", k>>
Un(o, e) == <<"un", o, e>>
Bin(o, l, r) == <<"bin", o, l, r>>

\* ---- S
RECURSIVE Closed(_)
Closed(e) == CASE e[1] = "leaf" -> e[2] \notin Open
               [] e[1] = "un"   -> Closed(e[3])
               [] e[1] = "bin"  -> Closed(e[3]) /\ Closed(e[4])
RECURSIVE HasClosedBin(_)
HasClosedBin(e) == CASE e[1] = "leaf" -> FALSE
                     [] e[1] = "un"   -> HasClosedBin(e[3])
                     [] e[1] = "bin"  -> Closed(e) \/ HasClosedBin(e[3]) \/ HasClosedBin(e[4])

\* ---- M
ConstLeaf(e) == e[1] = "leaf" /\ e[2] \in {"num", "inf", "imag", "infimag", "true", "none"}
\* the possible results of visiting e, each with the set of expressions evaluated on the way: <<result, evaluated>>
RECURSIVE Visit(_)
Visit(e) ==
    CASE e[1] = "leaf" -> {<<e, {}>>}
      [] e[1] = "un"   -> {<<Un(e[2], v[1]), v[2]>> : v \in Visit(e[3])}
      [] e[1] = "bin"  ->
           UNION {UNION {
               LET node == Bin(e[2], vl[1], vr[1])
                   done == vl[2] \cup vr[2] IN
               IF ConstLeaf(vl[1]) /\ ConstLeaf(vr[1]) /\ e[2] \notin {"Div", "Pow"}
               THEN {<<node, done \cup {node}>>,                                \* evaluated, kept (error / not shorter / nan)
                     <<Leaf("num"), done \cup {node}>>, <<Leaf("true"), done \cup {node}>>,
                     <<Un("usub", Leaf("num")), done \cup {node}>>}
               ELSE {<<node, done>>}
             : vr \in Visit(e[4])} : vl \in Visit(e[3])}

\* ---- the second evaluation: the folder prints the value it computed and evaluates that text again, to compare it with the value
\* classes of computed values
ResultClasses == {"finite", "negative", "bool", "inf_float", "nan_float", "nonfinite_complex"}
\* S: how the printer spells a value of the class: a literal, or - where the language has no literal - repr() text that spells NAMES
\*    (nan; (nan+infj), (inf-infj) ... for a complex number with an infinite or nan part); 1e999 is the printer's literal for an infinite float
TextClosed(c) == c \notin {"nan_float", "nonfinite_complex"}
\* M: visit_BinOp returns before printing for a nan float, and (after the repair of D47) for a complex number with a non-finite part
MEvaluatesText(c) == c \notin {"nan_float", "nonfinite_complex"}

\* ---- cases
Operands1 == {Leaf(k) : k \in Leaves} \cup {Un(o, Leaf(k)) : o \in UnOps, k \in Leaves}
Small     == {Leaf("num"), Leaf("true"), Leaf("call"), Un("usub", Leaf("num")), Un("uadd", Leaf("call")), Un("not", Leaf("name"))}
Cases == {Bin(o, l, r) : o \in BinOps, l \in Operands1, r \in Operands1}
         \cup {Bin(o, Bin(p, a, b), c) : o \in BinOps, p \in BinOps, a \in Small, b \in Small, c \in Small}
         \cup {Bin(o, c, Bin(p, a, b)) : o \in BinOps, p \in BinOps, a \in Small, b \in Small, c \in Small}
         \cup {Un(u, Bin(o, a, b)) : u \in UnOps, o \in BinOps, a \in Small, b \in Small}
=============================================================================
