SPECIFICATION Spec
CONSTANT MaxLen = 1
CONSTANT CoreOnly = FALSE
INVARIANT EmitCase
CHECK_DEADLOCK FALSE
