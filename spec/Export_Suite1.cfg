SPECIFICATION Spec
CONSTANT MaxLen = 1
INVARIANT EmitCase
CHECK_DEADLOCK FALSE
