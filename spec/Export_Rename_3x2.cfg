INIT Init
NEXT Stutter
CONSTANTS N = 3
 NNames = 2
 FullY = FALSE
 Pep709 = FALSE
 Skeleton = FALSE
 ChainOnly = FALSE
 AnyOrder = TRUE
 AllOptions = FALSE
INVARIANT EmitProgram
CHECK_DEADLOCK FALSE
