INIT Init
NEXT Stutter
CONSTANTS N = 3
 NNames = 2
 FullY = FALSE
 AllOptions = FALSE
INVARIANT EmitProgram
CHECK_DEADLOCK FALSE
