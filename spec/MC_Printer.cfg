SPECIFICATION Spec
INVARIANT MFaithful
CHECK_DEADLOCK FALSE
