------------------------- MODULE Trace_SuiteCorpus -------------------------
(* C05 on real modules.  For every pinned module and option set O the harness erases, in the input tree and in the tree of the
   minified result, exactly the rewrites SuiteS.tla documents for O (harness/suitecanon.py, tied to Allowed() of SuiteS.tla on
   every exported case) and reports whether the two erased trees are equal.  TLC gives the verdict. *)
EXTENDS SuiteS, IOUtils
Obs == ndJsonDeserialize(IOEnv.TRACE_FILE)
SeqSet(q) == {q[k] : k \in 1..Len(q)}
AllOpt == Opt \cup {"ann_argument", "ann_return"}
Verdict(r) ==
    IF ~(SeqSet(r.opts) \subseteq AllOpt) THEN "machinery:unknown-option"
    ELSE IF r.outcome # "return" THEN "c05:minify-raised:" \o r.outcome
    ELSE IF ~r.equal /\ r.opts = <<>> THEN "c05:rewrite-although-every-option-is-off"
    ELSE IF ~r.equal THEN "c05:difference-not-explained-by-the-documented-rewrites"
    ELSE "ok"
VARIABLE i
TInit == i = 1
TNext == /\ i <= Len(Obs)
         /\ LET v == Verdict(Obs[i]) IN (v # "ok") => PrintT(ToJson(<<"VERDICT", Obs[i].id, v>>))
         /\ i' = i + 1
TSpec == TInit /\ [][TNext]_i
=============================================================================
