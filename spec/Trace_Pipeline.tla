-------------------------- MODULE Trace_Pipeline --------------------------
(* TLC as judge of minify() executions recorded from the real code (stage sequence through the
   outside seams, taint flag, outcome) against the envelope S of Pipeline.tla.
   One record per call; one TLC state per record; verdicts are total and name the failing clause. *)
EXTENDS PipelineS, Json, IOUtils

Obs == ndJsonDeserialize(IOEnv.TRACE_FILE)

RECURSIVE StagesOK(_, _, _, _)
StagesOK(evs, k, o, t) ==
    IF k > Len(evs) THEN "ok"
    ELSE IF evs[k].stage \notin Stages THEN "ok"              \* a stage S does not know: not judged
    ELSE IF ~StageAllowed(evs[k].stage, o, t) THEN "gating:stage-ran-against-its-gate:" \o evs[k].stage
    ELSE IF ~FlagAllowed(evs[k].stage, evs[k].flag, o, t) THEN "gating:naming-flag-against-gate:" \o evs[k].stage
    ELSE StagesOK(evs, k + 1, o, t)

Verdict(r) ==
    IF ~OutcomeAllowed(r.parses, r.compiles, r.outcome, r.syntaxerr, r.compiles_out)
    THEN (IF ~r.parses THEN "outcome:unparsable-source-did-not-raise-SyntaxError"
          ELSE IF r.outcome # "return" THEN "outcome:compilable-source-raised:" \o r.outcome
          ELSE "outcome:output-does-not-compile")
    ELSE IF r.seams THEN StagesOK(r.stages, 1, r.opts, r.tainted)
    ELSE "ok"

VARIABLE i
Init == i = 1
Next == /\ i <= Len(Obs)
        /\ LET v == Verdict(Obs[i]) IN (v # "ok") => PrintT(ToJson(<<"VERDICT", Obs[i].id, v>>))
        /\ i' = i + 1
Spec == Init /\ [][Next]_i
=============================================================================
