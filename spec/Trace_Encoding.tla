--------------------------- MODULE Trace_Encoding ---------------------------
(* TLC judges observations of the real minify()/pyminify on concretised encoding configurations. *)
EXTENDS EncodingS, Json, IOUtils

Obs == ndJsonDeserialize(IOEnv.TRACE_FILE)

Verdict(r) ==
    LET cfg == r.cfg IN
    IF ~r.input_compiles THEN "ok"                         \* outside this interpreter's language
    ELSE IF r.outcome # "return" THEN "c16:valid-encoded-source-raised:" \o r.outcome
    ELSE IF ~r.strict_equal THEN "c16:program-or-constants-changed"
    ELSE IF MustReproduce(cfg) /\ ~r.first_line_exact THEN "c16:shebang-not-reproduced-exactly"
    ELSE IF MustBeAbsent(cfg) /\ r.starts_with_shebang THEN "c16:shebang-present-although-not-wanted"
    ELSE IF r.has_pair /\ ~r.pair_equal THEN "c16:bytes-and-text-input-differ"
    ELSE IF r.has_cli /\ ~r.cli_utf8 THEN "c16:cli-output-is-not-utf8"
    ELSE IF r.has_cli /\ ~r.cli_equals_api THEN "c16:cli-output-differs-from-api"
    ELSE "ok"

VARIABLE i
Init == i = 1
Next == /\ i <= Len(Obs)
        /\ LET v == Verdict(Obs[i]) IN (v # "ok") => PrintT(ToJson(<<"VERDICT", Obs[i].id, v>>))
        /\ i' = i + 1
Spec == Init /\ [][Next]_i
=============================================================================
