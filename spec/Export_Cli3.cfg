INIT Init
NEXT Stutter
CONSTANT NFiles = 3
INVARIANT Emit
CHECK_DEADLOCK FALSE
