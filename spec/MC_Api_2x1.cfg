SPECIFICATION Spec
CONSTANTS Fixed = TRUE
 NThreads = 2
 NCalls = 1
INVARIANT ArgsUntouched
INVARIANT ResultIsFresh
CHECK_DEADLOCK FALSE
