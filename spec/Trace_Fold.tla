----------------------------- MODULE Trace_Fold -----------------------------
(* TLC judges observations of the real constant folder: the interpreter's own evaluation of the
   expression in the input and in the minified output (type, value text, sign bit, exception type),
   the output sizes with folding on and off, and - for single-operator cells - the type S predicts. *)
EXTENDS Naturals, Sequences, FiniteSets, TLC, Json, IOUtils

Obs == ndJsonDeserialize(IOEnv.TRACE_FILE)
Definite == {"bool", "int", "float", "complex", "TypeError", "ZeroDivisionError", "ValueError"}

Verdict(r) ==
    IF r.outcome # "return" THEN "c07:minify-raised:" \o r.outcome
    ELSE IF r.vin # r.vout THEN "c07:value-type-or-error-changed"
    ELSE IF r.len_on > r.len_off THEN "c07:folding-made-the-output-longer"
    ELSE IF r.check_table /\ r.rt \in Definite /\ r.observed # r.rt THEN "machinery:spec-table-disagrees-with-interpreter"
    ELSE "ok"

VARIABLE i
Init == i = 1
Next == /\ i <= Len(Obs)
        /\ LET v == Verdict(Obs[i]) IN (v # "ok") => PrintT(ToJson(<<"VERDICT", Obs[i].id, v>>))
        /\ i' = i + 1
Spec == Init /\ [][Next]_i
=============================================================================
