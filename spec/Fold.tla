-------------------------------- MODULE Fold --------------------------------
(* C07: constant folding decisions and result types.

   S: Python's numeric tower as a table  ResultType(op, ltype, rtype)  (type of the value, or the
      exception) for the five literal types and thirteen binary operators, refined by the operand
      classes that decide errors and special values (zero divisors, negative exponents, negative
      shift counts, overflow to inf, nan).  The property's rule: a replacement must be a literal of
      exactly that type and value; whatever raises, yields NaN or would not get shorter is kept.
   M: FoldConstants.visit_BinOp as written: operands must both be number / True / False / None
      literals; Div and Pow are never folded; evaluation errors keep the expression; NaN keeps it;
      bool results become name constants, negative results a unary minus on a positive literal,
      everything else a number literal; only strictly shorter, only if the printed literal parses
      back to the same node and evaluates to an equal value of the same type.
   TLC checks M against S for every (operator, left class, right class) cell and emits the cells for
   replay: concrete literals of each class are folded by the real code on every interpreter and the
   interpreter's own evaluation of input and output is judged by Trace_Fold.tla. *)
EXTENDS Naturals, Sequences, FiniteSets, TLC, Json

Ops == {"Add", "Sub", "Mult", "Div", "FloorDiv", "Mod", "Pow", "LShift", "RShift", "BitOr", "BitXor", "BitAnd", "MatMult"}
\* operand classes: type and the value features that matter
Classes == {"bool_f", "bool_t", "int_zero", "int_small", "int_neg", "int_big", "int_huge",
            "float_zero", "float_negzero", "float_fin", "float_neg", "float_max", "float_tiny", "float_inf",
            "complex", "complex_zero", "none"}
TypeOf(c) == CASE c \in {"bool_f", "bool_t"} -> "bool"
               [] c \in {"int_zero", "int_small", "int_neg", "int_big", "int_huge"} -> "int"
               [] c \in {"float_zero", "float_negzero", "float_fin", "float_neg", "float_max", "float_tiny", "float_inf"} -> "float"
               [] c \in {"complex", "complex_zero"} -> "complex"
               [] OTHER -> "none"
\* note: a literal is never negative or infinite by itself; int_neg / float_neg / float_inf / float_negzero stand for
\* sub-expressions such as (0 - 5), (0.0 - 1.5), (1e308 * 10), (0.0 * (0 - 1)) that fold to such values first
IsZero(c) == c \in {"bool_f", "int_zero", "float_zero", "float_negzero", "complex_zero"}

Rank(t) == CASE t = "bool" -> 1 [] t = "int" -> 2 [] t = "float" -> 3 [] t = "complex" -> 4 [] OTHER -> 0
Wider(a, b) == IF Rank(a) >= Rank(b) THEN a ELSE b

\* S: the type of  l op r  (or the exception), from the data model chapter of the language reference
ResultType(op, lc, rc) ==
    LET a == TypeOf(lc) b == TypeOf(rc) w == Wider(a, b) IN
    IF a = "none" \/ b = "none" THEN "TypeError"
    ELSE CASE op \in {"Add", "Sub", "Mult"} -> IF w = "bool" THEN "int" ELSE w
           [] op = "Div" -> IF IsZero(rc) THEN "ZeroDivisionError" ELSE IF w = "complex" THEN "complex" ELSE "float"
           [] op \in {"FloorDiv", "Mod"} -> IF w = "complex" THEN "TypeError"
                                            ELSE IF IsZero(rc) THEN "ZeroDivisionError"
                                            ELSE IF w = "bool" THEN "int" ELSE w
           [] op = "Pow" -> IF w = "complex" THEN "complex-or-error"                    \* 0 ** 1j raises
                            ELSE IF w = "float" THEN "float-or-complex-or-error"      \* value dependent (negative base, overflow)
                            ELSE IF rc = "int_neg" THEN (IF IsZero(lc) THEN "ZeroDivisionError" ELSE "float") ELSE "int"
           [] op \in {"LShift", "RShift"} -> IF w \in {"float", "complex"} THEN "TypeError"
                                             ELSE IF rc = "int_neg" THEN "ValueError" ELSE "int-or-resource-error"
           [] op \in {"BitOr", "BitXor", "BitAnd"} -> IF w \in {"float", "complex"} THEN "TypeError" ELSE w
           [] op = "MatMult" -> "TypeError"
Raises(rt) == rt \in {"TypeError", "ZeroDivisionError", "ValueError"}

-----------------------------------------------------------------------------
\* M
Literal(c) == TRUE     \* every class here is (a foldable stand-in for) a number / True / False / None literal
\* the node the code builds for a result of a given type and sign
NewNode(rt, negative) == CASE rt = "bool" -> "NameConstant"
                           [] negative -> "USub(Num)"
                           [] OTHER -> "Num"
\* type of the value the new node denotes
NodeType(node, rt) == IF node = "NameConstant" THEN "bool" ELSE rt

\* MDecide: "keep" or "fold"; `shorter`, `nan`, `negative` and `roundtrips` are facts about the concrete value (environment)
MDecide(op, lc, rc, shorter, nan, roundtrips) ==
    LET rt == ResultType(op, lc, rc) IN
    IF op \in {"Div", "Pow"} THEN "keep"
    ELSE IF Raises(rt) THEN "keep"                          \* safe_eval raised
    ELSE IF nan THEN "keep"
    ELSE IF rt \notin {"bool", "int", "float", "complex", "int-or-resource-error"} THEN "keep"
    ELSE IF ~shorter THEN "keep"
    ELSE IF ~roundtrips THEN "keep"
    ELSE "fold"

VARIABLES op, lc, rc, shorter, nan, negative, roundtrips
vars == <<op, lc, rc, shorter, nan, negative, roundtrips>>
Init == /\ op \in Ops /\ lc \in Classes /\ rc \in Classes
        /\ shorter \in BOOLEAN /\ nan \in BOOLEAN /\ negative \in BOOLEAN /\ roundtrips \in BOOLEAN
Next == UNCHANGED vars
Spec == Init /\ [][Next]_vars

Folds == MDecide(op, lc, rc, shorter, nan, roundtrips) = "fold"
\* M |= S
RaisesKept    == Raises(ResultType(op, lc, rc)) => ~Folds
NaNKept       == nan => ~Folds
NeverLonger   == Folds => shorter
TypePreserved == Folds => LET rt == IF ResultType(op, lc, rc) = "int-or-resource-error" THEN "int" ELSE ResultType(op, lc, rc)
                          IN NodeType(NewNode(rt, negative), rt) = rt
NegativeAsUnary == (Folds /\ negative /\ ResultType(op, lc, rc) # "bool") => NewNode(ResultType(op, lc, rc), negative) = "USub(Num)"

\* export of the cells for replay (one line per operator x class pair)
EmitCell == (shorter /\ ~nan /\ ~negative /\ roundtrips) =>
              PrintT(ToJson([op |-> op, lc |-> lc, rc |-> rc, rt |-> ResultType(op, lc, rc)]))
=============================================================================
