SPECIFICATION Spec
INVARIANT EmitPair
CHECK_DEADLOCK FALSE
