-------------------------------- MODULE HoistS --------------------------------
(* C06: placement of hoisted literals.

   The scope skeleton of a fixed program (harness/hoistgen.py TEMPLATE) with 22 places where one and
   the same literal may occur.  A case is a non-empty subset of those places (at most MaxUses) and a
   literal kind.  Scopes: 1 module . 2 class K . 3 method K.m . 4 function outer . 5 function inner
   (in outer) . 6 comprehension (in inner) . 7 lambda (in inner) . 8 class L (in outer) . 9 class S . 10 function docfn.

   S (HoistSound): if a name replaces the literal, it is assigned once, in a function or module body
      that encloses - by Python's evaluation-scope rules - every replaced use, ahead of every
      statement of that body except docstrings and __future__ imports; places where a name would
      mean something else (match patterns, __slots__, f-string text, literal statements) keep the
      literal.
   M: HoistLiterals as written: the uses it collects (its exclusions), the namespace the mapper gives
      each use, `nearest_function_namespace`, the deepest common function-namespace path. *)
EXTENDS Naturals, Sequences, FiniteSets, TLC, Json

Scopes == 1..10
Par  == <<0, 1, 2, 1, 4, 5, 5, 4, 1, 1>>
Kind == <<"m", "c", "f", "f", "f", "g", "l", "c", "c", "f">>

\* place -> <<scope it is written in, position kind>>
Places == 0..21
PlaceTable == <<
  <<2, "body">>,        \* P0  K.attr = LIT                      (class body)
  <<3, "default">>,     \* P1  def m(self, a=LIT)                (evaluated in class K)
  <<3, "body">>,        \* P2  inside K.m
  <<4, "default">>,     \* P3  def outer(p=LIT)                  (evaluated in the module)
  <<5, "decorator">>,   \* P4  @deco(LIT) def inner              (evaluated in outer)
  <<5, "default">>,     \* P5  def inner(q=LIT)                  (evaluated in outer)
  <<6, "body">>,        \* P6  [LIT for _ in ...] element        (comprehension in inner)
  <<7, "body">>,        \* P7  (lambda: LIT)()                   (lambda in inner)
  <<5, "fstr_expr">>,   \* P8  f"{LIT}" in inner
  <<4, "body">>,        \* P9  x = LIT in outer
  <<8, "body">>,        \* P10 class L: y = LIT                  (class in outer)
  <<1, "body">>,        \* P11 LITMOD = LIT
  <<1, "body">>,        \* P12 under `if` at module level
  <<1, "pattern">>,     \* P13 case LIT:
  <<9, "slots">>,       \* P14 __slots__ = (LIT, ...)
  <<4, "litstmt">>,     \* P15 a statement that is just LIT, in outer
  <<5, "fstr_text">>,   \* P16 literal text of an f-string in inner
  <<10, "docstring">>,  \* P17 first statement of function docfn: docstring position
  <<5, "default">>,     \* P18 def inner(..., *, kw=LIT): keyword-only default (evaluated in outer)
  <<7, "default">>,     \* P19 (lambda d=LIT: d)() in inner: lambda default (evaluated in inner)
  <<6, "first_iter">>,  \* P20 [_ for _ in [LIT]] in inner: the first iterable is evaluated in inner
  <<2, "annotation">> >> \* P21 K.ann_attr: LIT = 0 - the module starts with `from __future__ import annotations`: the annotation is not evaluated, it is kept as text
PScope(p) == PlaceTable[p + 1][1]
PPos(p)   == PlaceTable[p + 1][2]

\* Python: where a place is evaluated
EvalScope(p) == IF PPos(p) \in {"default", "decorator", "first_iter"} THEN Par[PScope(p)] ELSE PScope(p)
RECURSIVE Ancestors(_)
Ancestors(s) == IF s = 0 THEN {} ELSE {s} \cup Ancestors(Par[s])
\* a name assigned in function/module scope h is visible from scope s iff h is an ancestor-or-self of s and s is reached
\* through closures: class bodies between them do not hide it (they only do not *provide* names)
Visible(h, s) == h \in Ancestors(s) /\ Kind[h] \in {"m", "f"}
\* places where a name would mean something else
MustKeepLiteral(p) == PPos(p) \in {"pattern", "slots", "fstr_text", "docstring", "annotation"}

\* ---- M
\* (string and bytes literal statements are skipped; None / True / False statements are not)
Hoistable(p, lit) == /\ PPos(p) \notin {"pattern", "slots", "fstr_text", "annotation"}
                     /\ (PPos(p) \in {"litstmt", "docstring"} => lit \in {"none", "true"})
\* the namespace node the mapper gives a use (defaults and decorators belong to the enclosing namespace)
MNamespace(p) == IF PPos(p) \in {"default", "decorator", "first_iter"} THEN Par[PScope(p)] ELSE PScope(p)
RECURSIVE NearestFn(_)
NearestFn(s) == IF Kind[s] \in {"m", "f"} THEN s ELSE NearestFn(Par[s])
RECURSIVE FnPath(_)
FnPath(s) == LET f == NearestFn(s) IN IF f = 1 THEN <<1>> ELSE Append(FnPath(Par[f]), f)
RECURSIVE Common(_, _)
Common(a, b) == IF a = <<>> \/ b = <<>> \/ Head(a) # Head(b) THEN <<>> ELSE <<Head(a)>> \o Common(Tail(a), Tail(b))
RECURSIVE CommonAll(_)
CommonAll(ps) == IF Len(ps) = 1 THEN ps[1] ELSE Common(ps[1], CommonAll(Tail(ps)))
SetToSeqOrd(S) == LET RECURSIVE F(_) F(T) == IF T = {} THEN <<>> ELSE LET x == CHOOSE x \in T : \A y \in T : x <= y IN <<x>> \o F(T \ {x}) IN F(S)
MUses(P, lit) == {p \in P : Hoistable(p, lit)}
MHome(P, lit) == LET paths == [k \in 1..Cardinality(MUses(P, lit)) |-> FnPath(MNamespace(SetToSeqOrd(MUses(P, lit))[k]))]
                c == CommonAll(paths)
            IN c[Len(c)]
=============================================================================
