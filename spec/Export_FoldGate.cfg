SPECIFICATION Spec
INVARIANT EmitCase
CHECK_DEADLOCK FALSE
