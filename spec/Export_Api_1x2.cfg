INIT ExportInit
NEXT ExportNext
CONSTANTS Fixed = TRUE
 NThreads = 1
 NCalls = 2
INVARIANT EmitHistory
CHECK_DEADLOCK FALSE
