SPECIFICATION Spec
CONSTANTS Fixed = TRUE
 NThreads = 1
 NCalls = 3
INVARIANT ArgsUntouched
INVARIANT ResultIsFresh
CHECK_DEADLOCK FALSE
