SPECIFICATION Spec
CONSTANT NFiles = 3
INVARIANT RejectBeforeWrite
INVARIANT PostStateClean
INVARIANT OnlyTargetsOpened
INVARIANT FailStops
INVARIANT FailureIsReported
INVARIANT NoTruncatedAtEnd
INVARIANT TruncOnlyCurrent
INVARIANT NeverLarger
INVARIANT SizeRule
CHECK_DEADLOCK FALSE
