SPECIFICATION Spec
CONSTANTS Fixed = FALSE
 NThreads = 1
 NCalls = 2
INVARIANT ArgsUntouched
INVARIANT ResultIsFresh
CHECK_DEADLOCK FALSE
