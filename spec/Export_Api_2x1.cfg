INIT ExportInit
NEXT ExportNext
CONSTANTS Fixed = TRUE
 NThreads = 2
 NCalls = 1
INVARIANT EmitHistory
CHECK_DEADLOCK FALSE
