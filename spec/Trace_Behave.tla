---------------------------- MODULE Trace_Behave ----------------------------
(* C01 (Pipeline.ObsStable): TLC judges runs of a program before minification, after every stage of
   minify() (the tree each stage leaves behind, compiled as is - no printer involved) and of the
   printed result.  An observation is what the program printed, the type of the exception that ended
   it, and its public namespace.  Every observation must equal the observation of the input; the
   first stage after which it does not is named in the verdict. *)
EXTENDS Naturals, Sequences, FiniteSets, TLC, Json, IOUtils

Obs == ndJsonDeserialize(IOEnv.TRACE_FILE)

RECURSIVE FirstBad(_, _, _)
FirstBad(st, k, o0) == IF k > Len(st) THEN "" ELSE IF st[k].obs # o0 THEN st[k].stage ELSE FirstBad(st, k + 1, o0)

Verdict(r) ==
    IF r.outcome # "return" THEN "c01:minify-raised:" \o r.outcome
    ELSE IF FirstBad(r.stages, 1, r.obs0) # "" THEN "c01:behaviour-changed-by-stage:" \o FirstBad(r.stages, 1, r.obs0)
    ELSE IF r.obs_final # r.obs0 THEN
        (IF Len(r.stages) > 0 THEN "c01:printed-module-behaves-differently-from-the-final-tree" ELSE "c01:minified-module-behaves-differently")
    ELSE "ok"

VARIABLE i
TInit == i = 1
TNext == /\ i <= Len(Obs)
         /\ LET v == Verdict(Obs[i]) IN (v # "ok") => PrintT(ToJson(<<"VERDICT", Obs[i].id, v>>))
         /\ i' = i + 1
TSpec == TInit /\ [][TNext]_i
=============================================================================
