INIT Init
NEXT Stutter
CONSTANT NFiles = 2
INVARIANT Emit
CHECK_DEADLOCK FALSE
