----------------------------- MODULE Trace_Size -----------------------------
(* C17: TLC judges (a) every should_rename decision the real code took on the corpus, logged with its
   inputs through an outside wrapper, against the cost model, and (b) for real modules, the output
   length with a size option on against the length with it off, everything else equal. *)
EXTENDS CostS, Sequences, TLC, Json, IOUtils

Obs == ndJsonDeserialize(IOEnv.TRACE_FILE)

Verdict(r) ==
    IF r.what = "decision" THEN
        (IF r.decided # (r.old_mentions * r.L + r.new_mentions * r.C + r.additional <= r.refs * r.L)
         THEN "c17:rename-decision-contradicts-the-cost-comparison" ELSE "ok")
    ELSE IF r.what = "size" THEN
        (IF r.len_on > r.len_off THEN "c17:option-made-the-output-longer:" \o r.option ELSE "ok")
    ELSE "machinery:unknown-record"

VARIABLE i
TInit == i = 1
TNext == /\ i <= Len(Obs)
         /\ LET v == Verdict(Obs[i]) IN (v # "ok") => PrintT(ToJson(<<"VERDICT", Obs[i].id, v>>))
         /\ i' = i + 1
TSpec == TInit /\ [][TNext]_i
=============================================================================
