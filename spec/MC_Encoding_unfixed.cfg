SPECIFICATION Spec
CONSTANT Fixed = FALSE
INVARIANT ShebangExact
INVARIANT ShebangAbsent
CHECK_DEADLOCK FALSE
