SPECIFICATION Spec
CONSTANT MaxLen = 3
CONSTANT CoreOnly = TRUE
INVARIANT MInAllowed
INVARIANT OffMeansUntouched
INVARIANT NonEmpty
INVARIANT ImportOrderPreserved
INVARIANT BinderKept
CHECK_DEADLOCK FALSE
