SPECIFICATION Spec
CONSTANT MaxLen = 3
INVARIANT MInAllowed
INVARIANT OffMeansUntouched
INVARIANT NonEmpty
INVARIANT ImportOrderPreserved
CHECK_DEADLOCK FALSE
