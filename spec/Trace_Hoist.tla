----------------------------- MODULE Trace_Hoist -----------------------------
(* TLC judges where the real minifier put the names that replace a literal (C06). *)
EXTENDS HoistS, IOUtils

Obs == ndJsonDeserialize(IOEnv.TRACE_FILE)
SeqSet(q) == {q[k] : k \in 1..Len(q)}

Verdict(r) ==
    LET A == 1..Len(r.aliases) IN
    IF r.outcome # "return" THEN "c06:minify-raised:" \o r.outcome
    ELSE IF ~r.projected THEN "machinery:places-not-found-in-output"
    ELSE IF \E p \in SeqSet(r.replaced) : MustKeepLiteral(p) THEN "c06:literal-replaced-where-a-name-means-something-else"
    ELSE IF \E p \in SeqSet(r.replaced) : ~\E a \in A : p \in SeqSet(r.aliases[a].uses) THEN "c06:replacement-name-is-not-an-introduced-alias"
    ELSE IF \E a \in A : Kind[r.aliases[a].scope] \notin {"m", "f"} THEN "c06:alias-not-assigned-in-a-function-or-module-body"
    ELSE IF \E a \in A : \E p \in SeqSet(r.aliases[a].uses) : ~Visible(r.aliases[a].scope, EvalScope(p)) THEN "c06:alias-does-not-enclose-a-use"
    ELSE IF \E a \in A : r.aliases[a].count # 1 THEN "c06:alias-not-assigned-exactly-once"
    ELSE IF \E a \in A : ~r.aliases[a].first THEN "c06:alias-assigned-after-other-statements"
    ELSE IF \E a \in A : ~r.aliases[a].value_same THEN "c06:alias-bound-to-a-different-value-or-type"
    ELSE IF \E a \in A : r.aliases[a].rebound THEN "c06:alias-rebound-or-deleted"
    ELSE IF ~r.doc_ok THEN "c06:docstring-no-longer-first"
    ELSE IF ~r.future_ok THEN "c06:future-import-no-longer-ahead-of-all-code"
    ELSE IF ~r.compiles THEN "c06:output-rejected-by-the-compiler"
    ELSE IF ~r.run_equal THEN "c06:behaviour-differs"
    ELSE "ok"

VARIABLE i
TInit == i = 1
TNext == /\ i <= Len(Obs)
         /\ LET v == Verdict(Obs[i]) IN (v # "ok") => PrintT(ToJson(<<"VERDICT", Obs[i].id, v>>))
         /\ i' = i + 1
TSpec == TInit /\ [][TNext]_i
=============================================================================
