SPECIFICATION Spec
CONSTANT Fixed = TRUE
INVARIANT Emit
CHECK_DEADLOCK FALSE
