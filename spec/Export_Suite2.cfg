SPECIFICATION Spec
CONSTANT MaxLen = 2
CONSTANT CoreOnly = FALSE
INVARIANT EmitCase
CHECK_DEADLOCK FALSE
