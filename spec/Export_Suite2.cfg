SPECIFICATION Spec
CONSTANT MaxLen = 2
INVARIANT EmitCase
CHECK_DEADLOCK FALSE
