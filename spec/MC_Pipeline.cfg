SPECIFICATION Spec
INVARIANT Gating
INVARIANT TaintKnownInTime
INVARIANT OutcomeOK
INVARIANT NoRepeat
CHECK_DEADLOCK FALSE
