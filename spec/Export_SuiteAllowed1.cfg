SPECIFICATION Spec
CONSTANT MaxLen = 1
INVARIANT EmitAllowed
CHECK_DEADLOCK FALSE
