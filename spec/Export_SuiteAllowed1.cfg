SPECIFICATION Spec
CONSTANT MaxLen = 1
CONSTANT CoreOnly = FALSE
INVARIANT EmitAllowed
CHECK_DEADLOCK FALSE
