------------------------------- MODULE Tokens -------------------------------
(* M for token spacing: TokenPrinter's rule - which token method inserts a blank after which kind of previous token -
   transcribed from token_printer.py, checked against S (TokensS.tla) for every pair of bank tokens that the grammar can put
   next to each other, and every pair emitted for validation of S itself against CPython's tokenizer. *)
EXTENDS TokensS, TokenBank, Json

\* previous_token as the printer tracks it
PrevType(a) == CASE a.kind = "name" -> "Identifier" [] a.kind = "keyword" -> "Keyword" [] a.kind = "softkw" -> "SoftKeyword"
                 [] a.kind = "number" -> "NumberLiteral" [] a.kind = "string" -> "NonNumberLiteral" [] OTHER -> "Delimiter"

\* does the printer's method for b write a blank first?
SpaceM(a, b) ==
    LET p == PrevType(a) IN
    CASE b.kind \in {"name", "keyword", "softkw"} -> p \in {"Identifier", "Keyword", "SoftKeyword", "NumberLiteral"}
      [] b.kind = "string" -> b.firstc = "letter" /\ p \in {"Identifier", "Keyword", "SoftKeyword"}       \* prefixed literals (and every f-string)
      [] b.kind = "number" -> p \in {"Identifier", "Keyword", "SoftKeyword"}
      [] OTHER -> FALSE

\* pairs of kinds the grammar can put side by side with nothing in between (words after anything word-like, literals after keywords);
\* operator / operator and name / literal neighbours are constrained by the grammar and are judged on the observed adjacencies only
Grammatical(a, b) == \/ b.kind \in {"name", "keyword", "softkw"} /\ a.kind \in {"name", "keyword", "softkw", "number", "string"}
                     \/ a.kind \in {"keyword", "softkw"} /\ b.kind \in {"number", "string"}
                     \/ a.kind = "op" /\ a.text \in {")", "]", "}"} /\ b.kind \in {"name", "keyword", "softkw"}

VARIABLES a, b
vars == <<a, b>>
Init == a \in Bank /\ b \in Bank
Next == UNCHANGED vars
Spec == Init /\ [][Next]_vars

\* M |= S
SpacingSound == Grammatical(a, b) => SepOK(a, b, IF SpaceM(a, b) THEN " " ELSE "")
\* informational: blanks the printer writes although the tokens would not join
Redundant == SpaceM(a, b) /\ ~Joins(a, b)
EmitPair == PrintT(ToJson([a |-> a.text, b |-> b.text, ak |-> a.kind, bk |-> b.kind, joins |-> Joins(a, b), space_m |-> SpaceM(a, b),
                           grammatical |-> Grammatical(a, b)]))
=============================================================================
