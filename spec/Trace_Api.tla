----------------------------- MODULE Trace_Api -----------------------------
(* TLC judges replays of Api.tla histories in the real code (S level: ArgsUntouched, ResultIsFresh),
   and the history / hash-seed / free-running-thread observations over real modules. *)
EXTENDS Naturals, Sequences, FiniteSets, TLC, Json, IOUtils

Obs == ndJsonDeserialize(IOEnv.TRACE_FILE)

Verdict(r) ==
    IF r.kind = "replay" THEN
        LET C == 1..Len(r.calls) IN
        IF ~r.schedule_followed THEN "machinery:schedule-not-followed"
        ELSE IF \E k \in C : ~r.calls[k].returned THEN "c11:call-raised"
        ELSE IF ~r.heap_same \/ \E k \in C : ~r.calls[k].args_same THEN "c11:caller-argument-object-mutated"
        ELSE IF \E k \in C : ~r.calls[k].result_is_fresh THEN "c11:result-differs-from-fresh-process"
        ELSE "ok"
    ELSE IF r.kind = "seed" THEN (IF r.equal THEN "ok" ELSE "c11:output-depends-on-hash-seed")
    ELSE IF r.kind = "history" THEN (IF r.equal THEN "ok" ELSE "c11:output-depends-on-earlier-calls-in-the-process")
    ELSE IF r.kind = "threads" THEN (IF r.equal THEN "ok" ELSE "c11:output-depends-on-concurrent-threads")
    ELSE IF r.kind = "args" THEN (IF r.equal THEN "ok" ELSE "c11:caller-argument-object-mutated")
    ELSE "machinery:unknown-record-kind"

VARIABLE i
Init == i = 1
Next == /\ i <= Len(Obs)
        /\ LET v == Verdict(Obs[i]) IN (v # "ok") => PrintT(ToJson(<<"VERDICT", Obs[i].id, v>>))
        /\ i' = i + 1
Spec == Init /\ [][Next]_i
=============================================================================
