SPECIFICATION Spec
INVARIANT SpacingSound
CHECK_DEADLOCK FALSE
