SPECIFICATION Spec
CONSTANT MaxLen = 3
INVARIANT ClosedLiteral
INVARIANT MiniExact
CHECK_DEADLOCK FALSE
