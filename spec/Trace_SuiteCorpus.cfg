SPECIFICATION TSpec
CHECK_DEADLOCK FALSE
