SPECIFICATION Spec
CONSTANT KnownIndentation = TRUE
INVARIANT CostSound
INVARIANT Exact
CHECK_DEADLOCK FALSE
