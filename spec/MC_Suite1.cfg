SPECIFICATION Spec
CONSTANT MaxLen = 1
INVARIANT MInAllowed
INVARIANT OffMeansUntouched
INVARIANT NonEmpty
INVARIANT ImportOrderPreserved
INVARIANT BinderKept
CHECK_DEADLOCK FALSE
