SPECIFICATION Spec
CONSTANT MaxLen = 1
CONSTANT CoreOnly = FALSE
INVARIANT MInAllowed
INVARIANT OffMeansUntouched
INVARIANT NonEmpty
INVARIANT ImportOrderPreserved
INVARIANT BinderKept
CHECK_DEADLOCK FALSE
