-------------------------------- MODULE Api --------------------------------
(* Call histories of minify(): caller-owned argument objects shared between calls and threads.

   Heap: two caller-owned lists L1, L2.  Every call names, for preserve_locals and preserve_globals,
   one of: nothing, a single string, L1, L2.  A call is a sequence of steps at the grain at which the
   real code can be scheduled from outside (the seams at stage boundaries):
       Enter         parse ... resolve_names and the inline block that normalises the two arguments and
                     extends them with the names the module itself pins (type parameters)
       AllowLocals   allow_rename_locals   - reads preserve_locals
       AllowGlobals  allow_rename_globals  - extends preserve_globals with literal __all__ entries, reads it
       Rename        rename                - reads preserve_globals again (reserved names)
       Return
   M with Fixed = FALSE is the code before the repair of D11 (the caller's list object is aliased and
   extended in place); with Fixed = TRUE the lists are copied first.  Threads interleave at step grain.

   S: ArgsUntouched (the heap never changes) and ResultIsFresh (what a call computes from is exactly
   what a fresh process would compute from: the value the caller built the argument with, plus the
   module's own names). *)
EXTENDS Naturals, Sequences, FiniteSets, TLC, Json

CONSTANTS Fixed, NThreads, NCalls

Threads == 1..NThreads
Sources == {"s_all", "s_tp", "s_plain"}
ArgKinds == {"none", "str", "L1", "L2"}
Objs == {"L1", "L2"}

\* names the module pins by itself
Preserved(s) == IF s = "s_tp" THEN <<"T">> ELSE <<>>
AllNames(s)  == IF s = "s_all" THEN <<"a">> ELSE <<>>
Heap0 == [o \in Objs |-> IF o = "L1" THEN <<"x">> ELSE <<>>]

SeqSet(q) == {q[k] : k \in 1..Len(q)}
Intended(kind) == CASE kind = "none" -> <<>> [] kind = "str" -> <<"y">> [] OTHER -> Heap0[kind]

CallCfg == [src : Sources, pl : {"none", "L1"}, pg : ArgKinds]

VARIABLES plan,      \* plan[t] : sequence of NCalls call configurations
          heap,      \* caller-owned list objects
          ci, pc,    \* per thread: index of the current call, step within it
          lref, gref,\* per thread: what the call's local variables preserve_locals / preserve_globals refer to ("own" or an object)
          lown, gown,\* per thread: the call's private lists
          seen,      \* per thread: what the current call has read so far
          results    \* per thread: sequence of results of finished calls
vars == <<plan, heap, ci, pc, lref, gref, lown, gown, seen, results>>
VARIABLE sched     \* only used by the export configuration

Cur(t) == plan[t][ci[t]]
Val(t, ref, own) == IF ref = "own" THEN own ELSE heap[ref]

Init ==
    /\ plan \in [Threads -> [1..NCalls -> CallCfg]]
    /\ heap = Heap0
    /\ ci = [t \in Threads |-> 1]
    /\ pc = [t \in Threads |-> "enter"]
    /\ lref = [t \in Threads |-> "own"] /\ gref = [t \in Threads |-> "own"]
    /\ lown = [t \in Threads |-> <<>>] /\ gown = [t \in Threads |-> <<>>]
    /\ seen = [t \in Threads |-> <<>>]
    /\ results = [t \in Threads |-> <<>>]

\* normalise + extend with the module's own pinned names
Enter(t) ==
    /\ pc[t] = "enter" /\ ci[t] <= NCalls
    /\ LET c == Cur(t)
           alias(kind) == kind \in Objs /\ ~Fixed
           ArgVal(kind) == IF kind \in Objs THEN heap[kind] ELSE Intended(kind)     \* the argument's value at call entry
           lr == IF alias(c.pl) THEN c.pl ELSE "own"
           gr == IF alias(c.pg) THEN c.pg ELSE "own"
           lo2 == IF lr = "own" THEN ArgVal(c.pl) \o Preserved(c.src) ELSE <<>>
           go == IF gr = "own" THEN ArgVal(c.pg) \o Preserved(c.src) ELSE <<>>
           h1 == IF lr # "own" THEN [heap EXCEPT ![lr] = @ \o Preserved(c.src)] ELSE heap
           h2 == IF gr # "own" THEN [h1 EXCEPT ![gr] = @ \o Preserved(c.src)] ELSE h1
       IN /\ lref' = [lref EXCEPT ![t] = lr] /\ gref' = [gref EXCEPT ![t] = gr]
          /\ lown' = [lown EXCEPT ![t] = lo2] /\ gown' = [gown EXCEPT ![t] = go]
          /\ heap' = h2
    /\ pc' = [pc EXCEPT ![t] = "locals"]
    /\ seen' = [seen EXCEPT ![t] = <<>>]
    /\ UNCHANGED <<plan, ci, results>>

AllowLocals(t) ==
    /\ pc[t] = "locals"
    /\ seen' = [seen EXCEPT ![t] = Append(@, SeqSet(Val(t, lref[t], lown[t])))]
    /\ pc' = [pc EXCEPT ![t] = "globals"]
    /\ UNCHANGED <<plan, heap, ci, lref, gref, lown, gown, results>>

AllowGlobals(t) ==
    /\ pc[t] = "globals"
    /\ LET extra == AllNames(Cur(t).src) IN
       /\ IF gref[t] = "own"
             THEN gown' = [gown EXCEPT ![t] = @ \o extra] /\ heap' = heap
             ELSE heap' = [heap EXCEPT ![gref[t]] = @ \o extra] /\ gown' = gown
       /\ seen' = [seen EXCEPT ![t] = Append(@, SeqSet(Val(t, gref[t], gown[t]) \o extra))]
    /\ pc' = [pc EXCEPT ![t] = "rename"]
    /\ UNCHANGED <<plan, ci, lref, gref, lown, results>>

Rename(t) ==
    /\ pc[t] = "rename"
    /\ seen' = [seen EXCEPT ![t] = Append(@, SeqSet(Val(t, gref[t], gown[t])))]
    /\ pc' = [pc EXCEPT ![t] = "return"]
    /\ UNCHANGED <<plan, heap, ci, lref, gref, lown, gown, results>>

Return(t) ==
    /\ pc[t] = "return"
    /\ results' = [results EXCEPT ![t] = Append(@, <<Cur(t).src, seen[t]>>)]
    /\ ci' = [ci EXCEPT ![t] = @ + 1]
    /\ pc' = [pc EXCEPT ![t] = "enter"]
    /\ UNCHANGED <<plan, heap, lref, gref, lown, gown, seen>>

Next == \E t \in Threads : Enter(t) \/ AllowLocals(t) \/ AllowGlobals(t) \/ Rename(t) \/ Return(t)
Spec == Init /\ sched = <<>> /\ [][Next /\ UNCHANGED sched]_<<vars, sched>>

-----------------------------------------------------------------------------
\* S
ArgsUntouched == heap = Heap0

Fresh(c) == LET l == SeqSet(Intended(c.pl) \o Preserved(c.src))
                g == SeqSet(Intended(c.pg) \o Preserved(c.src) \o AllNames(c.src))
            IN <<c.src, <<l, g, g>>>>
ResultIsFresh == \A t \in Threads : \A k \in 1..Len(results[t]) : results[t][k] = Fresh(plan[t][k])


-----------------------------------------------------------------------------
\* export of histories for replay into the real code (Export_Api*.cfg): a plan and a schedule
\* (which thread takes the next step); M is deterministic once both are fixed
StepsPerCall == 5
Scheds == { q \in [1..(NThreads * NCalls * StepsPerCall) -> Threads] :
              \A t \in Threads : Cardinality({k \in DOMAIN q : q[k] = t}) = NCalls * StepsPerCall }
ExportInit == Init /\ sched \in Scheds
ExportNext == UNCHANGED <<vars, sched>>
EmitHistory == PrintT(ToJson([plan |-> plan, sched |-> sched]))
=============================================================================
