SPECIFICATION Spec
CONSTANT MaxUses = 5
INVARIANT EmitCase
CHECK_DEADLOCK FALSE
