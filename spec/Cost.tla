-------------------------------- MODULE Cost --------------------------------
(* TLC checks the cost model (M) against the true size change (S) for every decision in bounds.
   With sep = 1 (module level, or a body printed on one line) the model is exact; with an indented
   block (sep = 1 + depth) it under-estimates the inserted assignment by `depth` characters - the
   known finding D15, reproduced here when KnownIndentation = FALSE (MC_Cost_indent.cfg); a hoisted literal that touched a
   word costs one blank per site the model does not count - the known finding D30, reproduced the same way. *)
EXTENDS CostS

CONSTANT KnownIndentation      \* TRUE: decisions whose inserted assignment lands in an indented block (D15) or whose literal touched a word (D30) are excluded

VARIABLES kind, L, C, plain, imps, args, sep, touch
vars == <<kind, L, C, plain, imps, args, sep, touch>>
Init == /\ kind \in {"name", "builtin", "hoisted"}
        /\ L \in 1..12 /\ C \in 1..3 /\ plain \in 0..7 /\ imps \in 0..1 /\ args \in 0..1 /\ sep \in 1..3
        /\ (kind # "name" => imps = 0 /\ args = 0 /\ plain >= 1)
        /\ Refs(kind, plain, imps, args) >= 1
        /\ touch \in 0..2 /\ touch <= plain /\ (kind # "hoisted" => touch = 0)
Next == UNCHANGED vars
Spec == Init /\ [][Next]_vars

Inserted == kind # "name" \/ args > 0
CostSound == (ShouldRenameM(kind, L, C, plain, imps, args) /\ (KnownIndentation => ((sep = 1 \/ ~Inserted) /\ touch = 0)))
                => TrueDelta(kind, L, C, plain, imps, args, sep, touch) <= 0
\* the model is exact where no indentation is involved
Exact == ((sep = 1 \/ ~Inserted) /\ touch = 0) =>
            TrueDelta(kind, L, C, plain, imps, args, sep, touch) = RenameCost(kind, L, C, plain, imps, args) - CurrentCost(kind, L, plain, imps, args)
=============================================================================
