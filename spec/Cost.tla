-------------------------------- MODULE Cost --------------------------------
(* TLC checks the cost model (M) against the true size change (S) for every decision in bounds.
   With sep = 1 (module level, or a body printed on one line) the model is exact; with an indented
   block (sep = 1 + depth) it under-estimates the inserted assignment by `depth` characters - the
   known finding D15, reproduced here when KnownIndentation = FALSE. *)
EXTENDS CostS

CONSTANT KnownIndentation      \* TRUE: decisions whose inserted assignment lands in an indented block are excluded (D15)

VARIABLES kind, L, C, plain, imps, args, sep
vars == <<kind, L, C, plain, imps, args, sep>>
Init == /\ kind \in {"name", "builtin", "hoisted"}
        /\ L \in 1..12 /\ C \in 1..3 /\ plain \in 0..7 /\ imps \in 0..1 /\ args \in 0..1 /\ sep \in 1..3
        /\ (kind # "name" => imps = 0 /\ args = 0 /\ plain >= 1)
        /\ Refs(kind, plain, imps, args) >= 1
Next == UNCHANGED vars
Spec == Init /\ [][Next]_vars

Inserted == kind # "name" \/ args > 0
CostSound == (ShouldRenameM(kind, L, C, plain, imps, args) /\ (KnownIndentation => (sep = 1 \/ ~Inserted)))
                => TrueDelta(kind, L, C, plain, imps, args, sep) <= 0
\* the model is exact where no indentation is involved
Exact == (sep = 1 \/ ~Inserted) =>
            TrueDelta(kind, L, C, plain, imps, args, sep) = RenameCost(kind, L, C, plain, imps, args) - CurrentCost(kind, L, plain, imps, args)
=============================================================================
