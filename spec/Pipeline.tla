---------------------------- MODULE Pipeline ----------------------------
(* The composition of stages along minify().

   S (envelope): a stage may run only when its gating condition holds (its option is on and,
   for the stages that introduce or drop names, the module is not tainted); the flags handed to the
   naming stages may allow renaming only when the option is on and the module is not tainted;
   the outcome is SyntaxError exactly for sources that do not parse, a normal return otherwise.

   M (implementation-shaped): the stages in the order minify() runs them, one action per stage,
   each guarded the way the code guards it.  TLC checks M |= S for every option set, with and
   without taint, parsable or not.  Trace_Pipeline re-uses S to judge stage sequences recorded
   from the real minify(). *)
EXTENDS PipelineS

-----------------------------------------------------------------------------
\* M : minify() as it is written
Order == << "add_parent", "add_namespace", "RemoveLiteralStatements", "CombineImports", "RemoveAnnotations",
            "RemovePass", "RemoveObject", "RemoveAsserts", "RemoveDebug", "RemoveExplicitReturnNone",
            "FoldConstants", "bind_names", "resolve_names", "remove_no_arg_exception_call",
            "allow_rename_locals", "allow_rename_globals", "rename_literals", "rename", "remove_posargs",
            "unparse" >>

VARIABLES opts, parses, taintsrc, pc, ran, flags, tainted, outcome
vars == <<opts, parses, taintsrc, pc, ran, flags, tainted, outcome>>

Init ==
    /\ opts \in [Opts -> BOOLEAN]
    /\ parses \in BOOLEAN
    /\ taintsrc \in BOOLEAN
    /\ pc = 0
    /\ ran = <<>>
    /\ flags = <<>>
    /\ tainted = FALSE
    /\ outcome = "running"

Parse ==
    /\ pc = 0
    /\ IF parses THEN pc' = 1 /\ outcome' = outcome
                 ELSE pc' = 99 /\ outcome' = "raise:SyntaxError"
    /\ UNCHANGED <<opts, parses, taintsrc, ran, flags, tainted>>

\* how the code guards each stage (deliberately written from the code, not from S)
MGuard(st) ==
    CASE st = "remove_no_arg_exception_call" -> opts["remove_builtin_exception_brackets"] /\ ~tainted
      [] st = "rename_literals"              -> opts["hoist_literals"] /\ ~tainted
      [] st \in Gated                        -> opts[StageOpt[st]]
      [] OTHER                               -> TRUE
MFlag(st) ==
    CASE st = "allow_rename_locals"  -> opts["rename_locals"] /\ ~tainted
      [] st = "allow_rename_globals" -> opts["rename_globals"] /\ ~tainted
      [] st = "rename"               -> ~(opts["rename_globals"] /\ ~tainted)
      [] OTHER                       -> FALSE

RunStage ==
    /\ pc \in 1..Len(Order)
    /\ LET st == Order[pc] IN
       /\ IF MGuard(st)
             THEN /\ ran' = Append(ran, st)
                  /\ flags' = Append(flags, MFlag(st))
             ELSE UNCHANGED <<ran, flags>>
       /\ tainted' = IF st = "resolve_names" THEN taintsrc ELSE tainted
    /\ pc' = pc + 1
    /\ UNCHANGED <<opts, parses, taintsrc, outcome>>

Return ==
    /\ pc = Len(Order) + 1
    /\ pc' = 99
    /\ outcome' = "return"
    /\ UNCHANGED <<opts, parses, taintsrc, ran, flags, tainted>>

Next == Parse \/ RunStage \/ Return
Spec == Init /\ [][Next]_vars

-----------------------------------------------------------------------------
\* M |= S
Gating == \A k \in 1..Len(ran) :
             /\ StageAllowed(ran[k], opts, taintsrc)
             /\ FlagAllowed(ran[k], flags[k], opts, taintsrc)
\* the taint decision is known before any stage that depends on it runs
TaintKnownInTime == \A k \in 1..Len(ran) : ran[k] \in NeedsUntainted => \E j \in 1..(k-1) : ran[j] = "resolve_names"
OutcomeOK == pc = 99 => /\ (~parses => outcome = "raise:SyntaxError")
                        /\ (parses => outcome = "return" /\ ran[Len(ran)] = "unparse")
\* nothing is run twice
NoRepeat == \A j, k \in 1..Len(ran) : j # k => ran[j] # ran[k]
=============================================================================
