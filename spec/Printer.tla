------------------------------- MODULE Printer -------------------------------
(* M for parentheses: the decisions of ExpressionPrinter / ModulePrinter, transcribed from the code
   (the `precedences` table, _lhs, _rhs, visit_UnaryOp, visit_BoolOp, visit_Compare, visit_Attribute,
   visit_Subscript, visit_Starred, visit_Dict, visit_IfExp, visit_comprehension, visit_Await,
   _expression, _testlist, and which of them each statement printer calls).

   TLC checks, for every (slot, child kind) cell: M's decision is Faithful under S (PrinterS.tla),
   i.e. whenever M omits the parentheses the grammar really yields the intended tree.
   Precedences are doubled so that the code's 3.5 for `comprehension` is the integer 7. *)
EXTENDS PrinterS, Json

\* the code's precedence of a node kind (0 = "no precedence": never parenthesised by the comparison rules)
PrecM(kind) ==
    CASE kind \in {"lambda", "lambda1"} -> 4
      [] kind = "ifexp" -> 6
      [] kind = "or" -> 8
      [] kind = "and" -> 10
      [] kind = "not" -> 12
      [] kind \in {"eq", "lt", "is", "isnot", "in", "notin", "cmpchain"} -> 14
      [] kind = "bitor" -> 16
      [] kind = "bitxor" -> 18
      [] kind = "bitand" -> 20
      [] kind \in {"lshift", "rshift"} -> 22
      [] kind \in {"add", "sub_"} -> 24
      [] kind \in {"mult", "div", "floordiv", "mod", "matmult"} -> 26
      [] kind \in {"uadd", "usub", "invert", "negint"} -> 28
      [] kind = "pow" -> 30
      [] kind = "await" -> 32
      [] kind \in {"sub", "slice", "call", "attr"} -> 34
      [] kind \in {"tuple0", "tuple1", "tuple2", "set", "list", "dict", "listcomp", "setcomp", "dictcomp", "genexp"} -> 36
      [] OTHER -> 0          \* names, constants, f-strings, yield, named expressions, starred

\* _expression(): yield, non-empty tuples and named expressions always get parentheses
ExprWrap(kind) == kind \in YieldKinds \cup TupleKinds \cup StarTupleKinds \cup {"walrus"}
\* _testlist(): yield and named expressions only
TestlistWrap(kind) == kind \in YieldKinds \cup {"walrus"}

OpOf(s) == CASE s \in {"add.left", "add.right", "sub_.left", "sub_.right"} -> 24
             [] s \in {"mult.left", "mult.right", "div.left", "div.right", "floordiv.left", "floordiv.right",
                       "mod.left", "mod.right", "matmult.left", "matmult.right"} -> 26
             [] s \in {"pow.left", "pow.right"} -> 30
             [] s \in {"lshift.left", "lshift.right", "rshift.left", "rshift.right"} -> 22
             [] s \in {"bitand.left", "bitand.right"} -> 20
             [] s \in {"bitxor.left", "bitxor.right"} -> 18
             [] s \in {"bitor.left", "bitor.right"} -> 16
             [] OTHER -> 0

LhsSlots  == {"add.left", "sub_.left", "mult.left", "div.left", "floordiv.left", "mod.left", "matmult.left", "pow.left",
              "lshift.left", "rshift.left", "bitand.left", "bitxor.left", "bitor.left"}
RhsSlots  == {"add.right", "sub_.right", "mult.right", "div.right", "floordiv.right", "mod.right", "matmult.right", "pow.right",
              "lshift.right", "rshift.right", "bitand.right", "bitxor.right", "bitor.right"}
TestlistSlots == {"expr", "assign.value", "augassign.value", "return"}
\* statement printers that print a yield without parentheses
YieldBareSlots == {"expr", "assign.value", "augassign.value"}

\* does the printer put parentheses around a child of this kind in this slot?
ParensM(s, kind) ==
    LET p == PrecM(kind) IN
    CASE s \in LhsSlots ->
            (p # 0 /\ (OpOf(s) > p \/ (OpOf(s) = p /\ s = "pow.left"))) \/ ExprWrap(kind)
      [] s \in RhsSlots ->
            LET op == IF s = "pow.right" /\ p = 28 THEN 28 ELSE OpOf(s) IN
            (p # 0 /\ (op > p \/ (op = p /\ s # "pow.right"))) \/ ExprWrap(kind)
      [] s \in {"uadd.operand", "usub.operand", "invert.operand"} -> (p # 0 /\ 28 > p) \/ ExprWrap(kind)
      [] s = "not.operand" -> (p # 0 /\ 12 > p) \/ ExprWrap(kind)
      [] s \in {"or.first", "or.second", "or.middle"} -> (p # 0 /\ 8 >= p) \/ ExprWrap(kind)
      [] s \in {"and.first", "and.second", "and.middle"} -> (p # 0 /\ 10 >= p) \/ ExprWrap(kind)
      [] s \in {"eq.left", "is.left", "in.left", "notin.left"} -> (p # 0 /\ 14 >= p) \/ ExprWrap(kind)
      [] s \in {"eq.right", "is.right", "in.right", "notin.right", "isnot.right", "cmpchain.middle"} -> (p # 0 /\ 14 >= p) \/ ExprWrap(kind)
      [] s \in {"ifexp.body", "ifexp.test"} -> (p # 0 /\ 6 >= p) \/ ExprWrap(kind)
      [] s = "call.func" -> (p # 0 /\ 34 > p) \/ ExprWrap(kind)
      [] s \in {"attr.value", "assign.target.attr"} -> (p # 0 /\ 34 > p) \/ kind \in {"int", "float", "imag"} \/ ExprWrap(kind)
      [] s \in {"sub.value", "del.sub"} -> (p # 0 /\ 34 > p) \/ ExprWrap(kind)
      [] s \in {"star.list", "dict.unpack", "call.star"} -> (p > 0 /\ p <= 14) \/ ExprWrap(kind)
      [] s \in {"comp.iter", "comp.iter2", "comp.if", "comp.if2"} -> (p # 0 /\ 7 > p) \/ ExprWrap(kind)
      [] s = "await.value" -> (p # 0 /\ 32 >= p) \/ ExprWrap(kind)
      [] s \in YieldBareSlots /\ kind \in YieldKinds -> FALSE
      [] s \in TestlistSlots -> TestlistWrap(kind)
      [] s = "sub.index" -> IF kind \in TupleKinds \cup StarTupleKinds THEN FALSE ELSE ExprWrap(kind)
      [] s \in {"with.ctx", "with.ctx2"} -> ExprWrap(kind)          \* after the repair of D7 a tuple gets a second pair
      [] s = "match.guard" -> ExprWrap(kind) /\ kind # "walrus"      \* after the repair of D17; a bare named expression is printed as is
      [] s \in {"fstr.value", "fstr.value.conv", "fstr.value.spec", "fstr.spec.value"} -> ExprWrap(kind) \/ kind \in {"lambda", "lambda1"}
      [] OTHER -> ExprWrap(kind)

VARIABLES s, k
vars == <<s, k>>
Init == s \in Slots /\ k \in Kinds /\ InLanguage(s, k)
Next == UNCHANGED vars
Spec == Init /\ [][Next]_vars

\* M |= S : every decision of the printer is faithful
MFaithful == Faithful(s, k, ParensM(s, k))
\* informational (not required by the property): parentheses the printer adds although the grammar does not need them
Redundant == ParensM(s, k) /\ BareOK(s, k)
Emit == PrintT(ToJson([slot |-> s, kind |-> k, bare_ok |-> BareOK(s, k), parens_m |-> ParensM(s, k)]))
=============================================================================
