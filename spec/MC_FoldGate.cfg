SPECIFICATION Spec
INVARIANT GateSound
INVARIANT EvalOnlyIfAllowed
INVARIANT TextGateSound
CHECK_DEADLOCK FALSE
