SPECIFICATION Spec
INVARIANT GateSound
INVARIANT EvalOnlyIfAllowed
CHECK_DEADLOCK FALSE
