------------------------------ MODULE Encoding ------------------------------
(* M for the shebang part of minify(): what _find_shebang() captures, as a function of the line
   terminator convention.  The source is abstracted to: first line L1 (a shebang or not), its
   terminator, the rest R.  `CaptureM` is the code's regular expression  ^#![^\r\n]*  (the repaired
   one; the original  ^#!.*  captured "L1 \r" under CRLF and "L1 \r R..." under CR-only line ends -
   defect D13, reproduced by TLC when Fixed = FALSE).
   TLC checks that for every configuration what M prepends is exactly what S demands. *)
EXTENDS EncodingS, Json

CONSTANT Fixed

VARIABLE c
vars == <<c>>

\* what the regular expression captures, in abstract pieces
CaptureM(cfg) ==
    IF ~HasShebang(cfg) \/ cfg.bom THEN <<>>
    ELSE IF Fixed THEN <<"L1">>
    ELSE CASE cfg.newline = "LF"   -> <<"L1">>
           [] cfg.newline = "CRLF" -> <<"L1", "CR">>
           [] cfg.newline = "CR"   -> <<"L1", "CR", "REST">>
\* bytes input: the capture is decoded as UTF-8, which fails for a non-UTF-8 shebang line (known finding D14)
DecodeFailsM(cfg) == cfg.form = "bytes" /\ HasShebang(cfg) /\ ~cfg.bom /\ cfg.shebang = "non-ascii" /\ cfg.cookie \in {"latin-1", "cp1252", "iso-8859-15", "latin-1-dos", "ISO_8859_15", "Latin_1"}

FirstLineM(cfg) == IF cfg.preserve /\ CaptureM(cfg) # <<>> THEN CaptureM(cfg) ELSE <<>>

Init == c \in Configs /\ InLanguage(c)
Next == UNCHANGED c
Spec == Init /\ [][Next]_vars

ShebangExact  == MustReproduce(c) => FirstLineM(c) = <<"L1">>
ShebangAbsent == MustBeAbsent(c) => FirstLineM(c) = <<>>
Emit == PrintT(ToJson(c))
=============================================================================
