SPECIFICATION Spec
INVARIANT RaisesKept
INVARIANT NaNKept
INVARIANT NeverLonger
INVARIANT TypePreserved
INVARIANT NegativeAsUnary
CHECK_DEADLOCK FALSE
