------------------------------- MODULE CliS -------------------------------
(* S (envelope) for the command line tool: what the documentation promises about flags (C13),
   the size rule (C14) and in-place runs over file trees (C15).  No variables; shared by
   Cli.tla (M |= S) and Trace_Cli.tla (observed runs of the real pyminify in S).

   Transcribed from `pyminify --help` and docs/source/transforms/*.rst (DESIGN.md appendix D),
   not from __main__.py. *)
EXTENDS Naturals, FiniteSets, Sequences, TLC

-----------------------------------------------------------------------------
\* C13: flags -> documented option values
Flags == {"no-combine-imports", "no-remove-pass", "remove-literal-statements", "no-hoist-literals",
          "no-rename-locals", "rename-globals", "no-remove-object-base", "no-convert-posargs-to-args",
          "no-preserve-shebang", "remove-asserts", "remove-debug", "no-remove-explicit-return-none",
          "no-remove-builtin-exception-brackets", "no-constant-folding",
          "no-remove-annotations", "no-remove-variable-annotations", "no-remove-return-annotations",
          "no-remove-argument-annotations", "remove-class-attribute-annotations"}

\* option -> <<flag that switches it, value when the flag is absent>>
OptFlag == [combine_imports                   |-> <<"no-combine-imports", TRUE>>,
            remove_pass                       |-> <<"no-remove-pass", TRUE>>,
            remove_literal_statements         |-> <<"remove-literal-statements", FALSE>>,
            hoist_literals                    |-> <<"no-hoist-literals", TRUE>>,
            rename_locals                     |-> <<"no-rename-locals", TRUE>>,
            rename_globals                    |-> <<"rename-globals", FALSE>>,
            remove_object_base                |-> <<"no-remove-object-base", TRUE>>,
            convert_posargs_to_args           |-> <<"no-convert-posargs-to-args", TRUE>>,
            preserve_shebang                  |-> <<"no-preserve-shebang", TRUE>>,
            remove_asserts                    |-> <<"remove-asserts", FALSE>>,
            remove_debug                      |-> <<"remove-debug", FALSE>>,
            remove_explicit_return_none       |-> <<"no-remove-explicit-return-none", TRUE>>,
            remove_builtin_exception_brackets |-> <<"no-remove-builtin-exception-brackets", TRUE>>,
            constant_folding                  |-> <<"no-constant-folding", TRUE>>]
SimpleOpts == DOMAIN OptFlag
AnnKinds == [remove_variable_annotations        |-> <<"no-remove-variable-annotations", TRUE>>,
             remove_return_annotations          |-> <<"no-remove-return-annotations", TRUE>>,
             remove_argument_annotations        |-> <<"no-remove-argument-annotations", TRUE>>,
             remove_class_attribute_annotations |-> <<"remove-class-attribute-annotations", FALSE>>]
AnnOpts == DOMAIN AnnKinds

\* a flag present flips its option's default; --no-remove-annotations switches every annotation kind off
Meaning(F) ==
    [o \in SimpleOpts \cup AnnOpts |->
        IF o \in SimpleOpts
        THEN (IF OptFlag[o][1] \in F THEN ~OptFlag[o][2] ELSE OptFlag[o][2])
        ELSE IF "no-remove-annotations" \in F THEN FALSE
        ELSE (IF AnnKinds[o][1] \in F THEN ~AnnKinds[o][2] ELSE AnnKinds[o][2])]

\* documented rejections (before anything is written)
FlagsRejected(F) == {"remove-class-attribute-annotations", "no-remove-annotations"} \subseteq F

\* path-argument shapes and output modes
Shapes == {"stdin", "one_file", "many", "dir", "stdin_and_file"}
Modes  == {"stdout", "output", "in_place"}
ArgsRejected(shape, mode) ==
    \/ shape = "stdin_and_file"
    \/ (shape = "stdin" /\ mode = "in_place")
    \/ (shape \in {"many", "dir"} /\ mode # "in_place")

\* preserve lists: the names meant by the occurrences of --preserve-locals / --preserve-globals
\* each occurrence is a sequence of comma separated items; items are stripped; empty items dropped
RECURSIVE FlattenItems(_)
FlattenItems(occ) == IF occ = <<>> THEN <<>>
                     ELSE SelectSeq(Head(occ), LAMBDA it : it # "") \o FlattenItems(Tail(occ))

-----------------------------------------------------------------------------
\* C14: the size rule.  written = what reaches stdout / --output / the file; lens in bytes
SizeRuleOK(readLen, apiLen, writtenIsApi, writtenIsOriginal, force) ==
    IF force THEN writtenIsApi
    ELSE IF apiLen > readLen THEN writtenIsOriginal
    ELSE writtenIsApi
NeverLargerOK(readLen, writtenLen, force) == force \/ writtenLen <= readLen

-----------------------------------------------------------------------------
\* C15: files.  reach = how the path arguments reach a file; class = how it behaves
Reach == {"named", "dir_py", "dir_pyw", "dir_other", "outside"}
Class == {"shrinks", "legacy", "grows", "equal", "empty", "invalid", "undecodable", "unreadable", "readonly"}
\* legacy: a module with a non-UTF-8 coding declaration and non-ASCII text; it shrinks, and the minified module is written as UTF-8
IsTarget(r) == r \in {"named", "dir_py", "dir_pyw"}
Fails(c)    == c \in {"invalid", "undecodable", "unreadable"}
\* the content a target may end with: its original bytes or the complete minified module
\* post \in {"pre", "min", "other"} is computed by the harness from hashes
PostAllowed(r, c, post, force) ==
    IF ~IsTarget(r) THEN post = "pre"
    ELSE IF Fails(c) THEN post = "pre"
    ELSE IF c = "readonly" THEN post = "pre"
    ELSE IF c \in {"grows"} /\ ~force THEN post = "pre"
    ELSE post \in {"pre", "min"}
=============================================================================
