SPECIFICATION Spec
CONSTANT MaxLen = 3
INVARIANT NestedExact
CHECK_DEADLOCK FALSE
