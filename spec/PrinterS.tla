------------------------------ MODULE PrinterS ------------------------------
(* S for parentheses (C02): the grammar's own levels.  Written from the Python language reference /
   Grammar/python.gram (3.12), not from the printer.

   Every expression kind has the grammar level at which it is produced; every expression-valued slot
   has the lowest level it accepts without parentheses, plus whether it accepts a bare tuple
   (star_expressions), a bare assignment expression (named_expression), a bare yield, and starred
   items.  Faithful(slot, kind, parens): the text "slot[child]" (with or without parentheses) parses
   to the tree in which child sits in that slot.

   Levels: 3 lambda/ifexp (expression) . 4 or . 5 and . 6 not . 7 comparison . 8 | . 9 ^ . 10 & .
   11 shifts . 12 + - . 13 * / // % @ . 14 unary . 15 ** . 16 await . 17 primary . 18 atom *)
EXTENDS Naturals, Sequences, FiniteSets, TLC

\* <<kind, level>>; tuples / walrus / yield / starred are handled by the slot flags, level 0 here
KindTable == <<
  <<"name", 18>>, <<"int", 18>>, <<"float", 18>>, <<"imag", 18>>, <<"str", 18>>, <<"bytes", 18>>, <<"fstr", 18>>,
  <<"none", 18>>, <<"true", 18>>, <<"ellipsis", 18>>, <<"list", 18>>, <<"set", 18>>, <<"dict", 18>>,
  <<"listcomp", 18>>, <<"setcomp", 18>>, <<"dictcomp", 18>>, <<"genexp", 18>>, <<"tuple0", 18>>,
  <<"call", 17>>, <<"attr", 17>>, <<"sub", 17>>, <<"slice", 17>>,
  <<"await", 16>>, <<"pow", 15>>, <<"uadd", 14>>, <<"usub", 14>>, <<"invert", 14>>, <<"negint", 14>>,
  <<"mult", 13>>, <<"div", 13>>, <<"floordiv", 13>>, <<"mod", 13>>, <<"matmult", 13>>,
  <<"add", 12>>, <<"sub_", 12>>, <<"lshift", 11>>, <<"rshift", 11>>, <<"bitand", 10>>, <<"bitxor", 9>>, <<"bitor", 8>>,
  <<"eq", 7>>, <<"lt", 7>>, <<"is", 7>>, <<"isnot", 7>>, <<"in", 7>>, <<"notin", 7>>, <<"cmpchain", 7>>,
  <<"not", 6>>, <<"and", 5>>, <<"or", 4>>, <<"ifexp", 3>>, <<"lambda", 3>>, <<"lambda1", 3>>,
  <<"tuple1", 0>>, <<"tuple2", 0>>, <<"startuple1", 0>>, <<"startuple2", 0>>, <<"walrus", 0>>, <<"yield", 0>>, <<"yield0", 0>>, <<"yieldfrom", 0>>, <<"starred", 0>> >>
Kinds == {KindTable[k][1] : k \in DOMAIN KindTable}
LevelOf == [kind \in Kinds |-> KindTable[CHOOSE k \in DOMAIN KindTable : KindTable[k][1] = kind][2]]
TupleKinds == {"tuple1", "tuple2"}
\* tuples with a starred element: bare only where the grammar has star_expressions / star_named_expressions
StarTupleKinds == {"startuple1", "startuple2"}
StarTupleBareSlots == {"expr", "assign.value", "augassign.value", "annassign.value", "return", "for.iter", "sub.index", "yield.value", "match.subject",
                       "fstr.value", "fstr.value.conv", "fstr.value.spec", "fstr.spec.value"}
YieldKinds == {"yield", "yield0", "yieldfrom"}

\* <<slot, needs, tupleBare, walrusBare, yieldBare, starOK>>
T == TRUE
F == FALSE
SlotTable == <<
  \* binary operators: left needs the operator's own level, right the next one; ** is right associative
  <<"add.left", 12, F, F, F, F>>, <<"add.right", 13, F, F, F, F>>, <<"sub_.left", 12, F, F, F, F>>, <<"sub_.right", 13, F, F, F, F>>,
  <<"mult.left", 13, F, F, F, F>>, <<"mult.right", 14, F, F, F, F>>, <<"div.left", 13, F, F, F, F>>, <<"div.right", 14, F, F, F, F>>,
  <<"floordiv.left", 13, F, F, F, F>>, <<"floordiv.right", 14, F, F, F, F>>, <<"mod.left", 13, F, F, F, F>>, <<"mod.right", 14, F, F, F, F>>,
  <<"matmult.left", 13, F, F, F, F>>, <<"matmult.right", 14, F, F, F, F>>,
  <<"pow.left", 16, F, F, F, F>>, <<"pow.right", 14, F, F, F, F>>,
  <<"lshift.left", 11, F, F, F, F>>, <<"lshift.right", 12, F, F, F, F>>, <<"rshift.left", 11, F, F, F, F>>, <<"rshift.right", 12, F, F, F, F>>,
  <<"bitand.left", 10, F, F, F, F>>, <<"bitand.right", 11, F, F, F, F>>, <<"bitxor.left", 9, F, F, F, F>>, <<"bitxor.right", 10, F, F, F, F>>,
  <<"bitor.left", 8, F, F, F, F>>, <<"bitor.right", 9, F, F, F, F>>,
  <<"uadd.operand", 14, F, F, F, F>>, <<"usub.operand", 14, F, F, F, F>>, <<"invert.operand", 14, F, F, F, F>>, <<"not.operand", 6, F, F, F, F>>,
  \* a nested `or` inside `or` must keep its parentheses (BoolOp nodes are n-ary): needs the next level
  <<"or.first", 5, F, F, F, F>>, <<"or.second", 5, F, F, F, F>>, <<"or.middle", 5, F, F, F, F>>,
  <<"and.first", 6, F, F, F, F>>, <<"and.second", 6, F, F, F, F>>, <<"and.middle", 6, F, F, F, F>>,
  <<"eq.left", 8, F, F, F, F>>, <<"eq.right", 8, F, F, F, F>>, <<"is.left", 8, F, F, F, F>>, <<"is.right", 8, F, F, F, F>>,
  <<"in.left", 8, F, F, F, F>>, <<"in.right", 8, F, F, F, F>>, <<"notin.left", 8, F, F, F, F>>, <<"notin.right", 8, F, F, F, F>>,
  <<"isnot.right", 8, F, F, F, F>>, <<"cmpchain.middle", 8, F, F, F, F>>,
  <<"ifexp.body", 4, F, F, F, F>>, <<"ifexp.test", 4, F, F, F, F>>, <<"ifexp.orelse", 3, F, F, F, F>>,
  <<"lambda.body", 3, F, F, F, F>>, <<"lambda.default", 3, F, F, F, F>>,
  <<"call.func", 17, F, F, F, F>>, <<"call.arg", 3, F, T, F, T>>, <<"call.arg2", 3, F, T, F, T>>, <<"call.kw", 3, F, F, F, F>>,
  <<"call.kwstar", 3, F, F, F, F>>, <<"call.star", 3, F, F, F, F>>,
  <<"attr.value", 17, F, F, F, F>>, <<"sub.value", 17, F, F, F, F>>,
  <<"sub.index", 3, T, T, F, T>>, <<"slice.lower", 3, F, F, F, F>>, <<"slice.upper", 3, F, F, F, F>>, <<"slice.step", 3, F, F, F, F>>,
  <<"subtuple.elt", 3, F, T, F, T>>,
  <<"tuple.elt", 3, F, T, F, T>>, <<"tuple1.elt", 3, F, T, F, T>>, <<"list.elt", 3, F, T, F, T>>, <<"set.elt", 3, F, T, F, T>>,
  <<"dict.key", 3, F, F, F, F>>, <<"dict.value", 3, F, F, F, F>>, <<"dict.unpack", 8, F, F, F, F>>,
  <<"star.list", 8, F, F, F, F>>,
  <<"listcomp.elt", 3, F, T, F, F>>, <<"genexp.elt", 3, F, T, F, F>>, <<"dictcomp.key", 3, F, F, F, F>>, <<"dictcomp.value", 3, F, F, F, F>>,
  <<"comp.iter", 4, F, F, F, F>>, <<"comp.if", 4, F, F, F, F>>, <<"comp.if2", 4, F, F, F, F>>, <<"comp.iter2", 4, F, F, F, F>>,
  <<"await.value", 17, F, F, F, F>>, <<"yield.value", 3, T, F, F, T>>, <<"yieldfrom.value", 3, F, F, F, F>>, <<"walrus.value", 3, F, F, F, F>>,
  <<"fstr.value", 3, T, F, T, T>>, <<"fstr.value.conv", 3, T, F, T, T>>, <<"fstr.value.spec", 3, T, F, T, T>>, <<"fstr.spec.value", 3, T, F, T, T>>,
  \* statements
  <<"expr", 3, T, F, T, T>>, <<"assign.value", 3, T, F, T, T>>, <<"augassign.value", 3, T, F, T, F>>,
  <<"annassign.value", 3, T, F, T, T>>, <<"annassign.ann", 3, F, F, F, F>>,
  <<"return", 3, T, F, F, T>>, <<"if.test", 3, F, T, F, F>>, <<"while.test", 3, F, T, F, F>>, <<"elif.test", 3, F, T, F, F>>,
  <<"for.iter", 3, T, F, F, T>>, <<"with.ctx", 3, F, F, F, F>>, <<"with.ctx.as", 3, F, F, F, F>>, <<"with.ctx2", 3, F, F, F, F>>,
  <<"raise.exc", 3, F, F, F, F>>, <<"raise.cause", 3, F, F, F, F>>, <<"assert.test", 3, F, F, F, F>>, <<"assert.msg", 3, F, F, F, F>>,
  <<"decorator", 3, F, T, F, F>>, <<"def.default", 3, F, F, F, F>>, <<"def.kwdefault", 3, F, F, F, F>>, <<"def.ann", 3, F, F, F, F>>, <<"def.returns", 3, F, F, F, F>>,
  <<"class.base", 3, F, T, F, T>>, <<"class.kw", 3, F, F, F, F>>,
  <<"match.subject", 3, T, T, F, F>>, <<"match.guard", 3, F, T, F, F>>, <<"typealias.value", 3, F, F, F, F>>,
  <<"del.sub", 17, F, F, F, F>>, <<"assign.target.attr", 17, F, F, F, F>> >>
Slots == {SlotTable[k][1] : k \in DOMAIN SlotTable}
SlotRow(s) == SlotTable[CHOOSE k \in DOMAIN SlotTable : SlotTable[k][1] = s]
Needs(s) == SlotRow(s)[2]

\* lexical special cases: cells whose bare spelling lexes or parses differently although the level fits
LexNeeds(s, kind) ==
    \/ (s \in {"attr.value", "assign.target.attr"} /\ kind = "int")                       \* 1.x lexes as a float
    \/ (s \in {"fstr.value", "fstr.value.conv", "fstr.value.spec", "fstr.spec.value"} /\ kind \in {"lambda", "lambda1"})   \* ':' starts the format spec
    \/ (s \in {"fstr.value", "fstr.value.conv", "fstr.value.spec", "fstr.spec.value"} /\ kind = "walrus")
    \/ (s = "with.ctx" /\ kind \in TupleKinds \cup StarTupleKinds)                  \* with (a, b): is a list of items
    \/ (s = "with.ctx2" /\ kind \in TupleKinds \cup StarTupleKinds)

\* is the bare (unparenthesised) spelling faithful?
BareOK(s, kind) ==
    /\ ~LexNeeds(s, kind)
    /\ CASE kind \in TupleKinds -> SlotRow(s)[3]
         [] kind \in StarTupleKinds -> s \in StarTupleBareSlots
         [] kind = "walrus"     -> SlotRow(s)[4]
         [] kind \in YieldKinds -> SlotRow(s)[5]
         [] kind = "starred"    -> SlotRow(s)[6]
         [] OTHER               -> LevelOf[kind] >= Needs(s)
\* starred items cannot be parenthesised: where they are not accepted the cell is outside the language
InLanguage(s, kind) == kind = "starred" => SlotRow(s)[6]
Faithful(s, kind, parens) == parens \/ BareOK(s, kind)
=============================================================================
