----------------------------- MODULE Trace_Eval -----------------------------
(* EvalMonitor (C12): trace validation of the audit events recorded while the real minify() runs.

   Events of one call, in order:
     compile(toks)   a text was compiled; toks are the lexical classes of its tokens
     exec(closed)    a code object was executed; closed = no names, no nested code, no call/import/attribute opcodes
     import / open / spawn / socket (canary)   canary = the argument mentions a name taken from the input
   The monitor's state is the status of the most recent compiled text.  An exec is allowed only directly
   after the compilation of a closed literal expression and only of closed bytecode; no event may be
   attributable to the input. *)
EXTENDS Naturals, Sequences, FiniteSets, TLC, Json, IOUtils

Obs == ndJsonDeserialize(IOEnv.TRACE_FILE)

\* token classes allowed in evaluated text: numbers, plain string/bytes literals, True/False/None,
\* arithmetic and bitwise operators, parentheses, and layout tokens
AllowedTok == {"NUMBER", "STRING", "NAMECONST", "OP_ARITH", "LPAR", "RPAR", "LAYOUT"}
ClosedLiteralExpr(toks) == \A k \in DOMAIN toks : toks[k] \in AllowedTok

\* walk the events; st \in {"none", "closed", "open"}
RECURSIVE Walk(_, _, _)
Walk(evs, k, st) ==
    IF k > Len(evs) THEN "ok"
    ELSE LET e == evs[k] IN
      CASE e.ev = "compile" -> Walk(evs, k + 1, IF ClosedLiteralExpr(e.toks) THEN "closed" ELSE "open")
        [] e.ev = "exec" ->
              IF st = "open" THEN "c12:executed-text-that-is-not-a-closed-literal-expression"
              ELSE IF st = "none" THEN "c12:executed-code-without-a-compiled-literal"
              ELSE IF ~e.closed THEN "c12:executed-bytecode-with-names-calls-or-nested-code"
              ELSE Walk(evs, k + 1, "none")
        [] e.ev \in {"import", "open", "spawn", "socket", "modload"} ->
              IF e.canary THEN "c12:" \o e.ev \o "-attributable-to-input" ELSE Walk(evs, k + 1, st)
        [] OTHER -> Walk(evs, k + 1, st)

Verdict(r) == Walk(r.events, 1, "none")

VARIABLE i
Init == i = 1
Next == /\ i <= Len(Obs)
        /\ LET v == Verdict(Obs[i]) IN (v # "ok") => PrintT(ToJson(<<"VERDICT", Obs[i].id, v>>))
        /\ i' = i + 1
Spec == Init /\ [][Next]_i
=============================================================================
