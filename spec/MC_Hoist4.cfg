SPECIFICATION Spec
CONSTANT MaxUses = 4
INVARIANT HoistSound
INVARIANT Deepest
CHECK_DEADLOCK FALSE
