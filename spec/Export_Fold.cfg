SPECIFICATION Spec
INVARIANT EmitCell
CHECK_DEADLOCK FALSE
