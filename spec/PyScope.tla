------------------------------ MODULE PyScope ------------------------------
(* S: Python's own name-resolution rules over abstract programs (C03, C04, C09, C10).

   An abstract program is a tree of scopes 1..N (1 = the module; par[s] < s) with a kind per scope
       "m" module . "f" function . "c" class . "g" comprehension (generator expression) . "l" lambda
   and, per (scope, name), the set of ways the name is used there:
       load . store . gdecl (global statement) . ndecl (nonlocal statement) . param . walrus (:= target)
   All operators take the program (par, kind) and a uses-function U over *any* name set, so that the
   same rules are evaluated on the input program and on the renamed output program.

   Validated against CPython: `symtable` classification and compile() acceptance of every enumerated
   program (harness, side 2 of the triangle). *)
EXTENDS Naturals, FiniteSets, Sequences, TLC

CONSTANT Pep709     \* TRUE: CPython >= 3.12 semantics, comprehensions (kind "g") are inlined list/set/dict comprehensions

FunctionLike(k) == k \in {"f", "l", "g"}

\* nearest enclosing scope that is not a comprehension: where a walrus target written in comprehension s is bound
RECURSIVE WTarget(_, _, _)
WTarget(par, kind, s) == IF kind[par[s]] = "g" THEN WTarget(par, kind, par[s]) ELSE par[s]

\* effective uses: a walrus inside comprehensions lands as a store in WTarget; in other scopes it is a plain store
Lands(par, kind, U, S, s, n) == \E c \in S : kind[c] = "g" /\ "walrus" \in U[c][n] /\ WTarget(par, kind, c) = s
EU(par, kind, U, S, s, n) ==
    (IF kind[s] = "g" THEN U[s][n] \ {"walrus"} ELSE (U[s][n] \ {"walrus"}) \cup (IF "walrus" \in U[s][n] THEN {"store"} ELSE {}))
    \cup (IF Lands(par, kind, U, S, s, n) THEN {"store"} ELSE {})
LocalIn(par, kind, U, S, s, n) == /\ EU(par, kind, U, S, s, n) \cap {"store", "param"} # {}
                                  /\ EU(par, kind, U, S, s, n) \cap {"gdecl", "ndecl"} = {}

\* PEP 709 (CPython >= 3.12): list / set / dict comprehensions are inlined into the function that contains them.  Their iteration
\* variables then count as bound in that function when a scope nested in it (another comprehension, a lambda, a def) looks the name up
\* as a free variable: the lookup stops there, at a cell that is unassigned outside the comprehension.  It does not apply at module or
\* class level, to explicit globals, or to the comprehension's own lookups.  Inlined(par, kind, U, S, t, n, from): is n such a leaked
\* iteration variable of a comprehension written directly in function-like t, seen from the nested scope `from`.
\* The including module defines Pep709 (TRUE: kind "g" stands for an inlined comprehension; FALSE: for a generator expression / <= 3.11).
Leaks(par, kind, U, S, t, n, from) ==
    /\ Pep709
    /\ kind[t] \in {"f", "l"}
    /\ \E c \in S : kind[c] = "g" /\ par[c] = t /\ c # from /\ "store" \in U[c][n]

\* free-variable lookup starting at ancestor t (reached from its child `from`): classes are invisible, an explicit global stops the search
RECURSIVE Free(_, _, _, _, _, _, _)
Free(par, kind, U, S, t, n, from) ==
    IF t = 0 \/ t = 1 THEN <<"G", 0>>
    ELSE IF kind[t] = "c" THEN Free(par, kind, U, S, par[t], n, t)
    ELSE IF "gdecl" \in EU(par, kind, U, S, t, n) THEN <<"G", 0>>
    ELSE IF LocalIn(par, kind, U, S, t, n) THEN <<"L", t>>
    ELSE IF Leaks(par, kind, U, S, t, n, from) THEN <<"LI", t>>          \* the leaked cell: a binding of its own
    ELSE Free(par, kind, U, S, par[t], n, t)

\* the binding an occurrence of n evaluated in scope s refers to: <<"G", 0>> or <<"L", scope>>
RECURSIVE PyB(_, _, _, _, _, _)
PyB(par, kind, U, S, s, n) ==
    IF s = 1 THEN <<"G", 0>>
    ELSE IF "gdecl" \in EU(par, kind, U, S, s, n) THEN <<"G", 0>>
    ELSE IF "ndecl" \in EU(par, kind, U, S, s, n) THEN Free(par, kind, U, S, par[s], n, s)
    ELSE IF LocalIn(par, kind, U, S, s, n) THEN <<"L", s>>
    ELSE Free(par, kind, U, S, par[s], n, s)
\* scope in which an occurrence is evaluated / bound
OccScope(par, kind, s, how) == IF how = "walrus" /\ kind[s] = "g" THEN WTarget(par, kind, s) ELSE s

\* a class-local name that is also loaded in the class body falls back to the global of the same spelling
\* until it is assigned (LOAD_NAME)
Fallback(par, kind, U, S, s, n) == s # 1 /\ kind[s] = "c" /\ LocalIn(par, kind, U, S, s, n) /\ "load" \in U[s][n]

\* is the global n bound by the module (assignment at module level, or a function that declares it global and stores it)
GlobalBound(par, kind, U, S, n) ==
    \E s \in S : \/ (s = 1 /\ EU(par, kind, U, S, s, n) \cap {"store", "param"} # {})
                 \/ ("gdecl" \in EU(par, kind, U, S, s, n) /\ "store" \in EU(par, kind, U, S, s, n))

\* the comprehensions from s outwards up to (not including) the scope where its walrus targets are bound
RECURSIVE CompChain(_, _, _)
CompChain(par, kind, s) == IF kind[s] # "g" THEN {} ELSE {s} \cup CompChain(par, kind, par[s])

\* static errors of the compiler that depend on names
Compilable(par, kind, U, S, Nm) ==
    /\ \A s \in S : kind[s] \in {"f", "c"} => (par[s] = 0 \/ kind[par[s]] \notin {"g", "l"})   \* no def/class inside an expression scope
    /\ \A s \in S, n \in Nm :
          /\ ("ndecl" \in U[s][n] => (s # 1 /\ Free(par, kind, U, S, par[s], n, s)[1] = "L"))
          /\ ("gdecl" \in U[s][n] => s # 1)
          /\ (kind[s] = "g" /\ "walrus" \in U[s][n] => kind[WTarget(par, kind, s)] # "c")
    /\ \A s \in S, n \in Nm :
          (kind[s] = "g" /\ "walrus" \in U[s][n]) =>
              \A c \in CompChain(par, kind, s) : "store" \notin U[c][n]          \* cannot rebind an iteration variable
=============================================================================
