SPECIFICATION Spec
CONSTANT MaxUses = 4
INVARIANT EmitCase
CHECK_DEADLOCK FALSE
