SPECIFICATION Spec
CONSTANTS Fixed = TRUE
 NThreads = 2
 NCalls = 2
INVARIANT ArgsUntouched
INVARIANT ResultIsFresh
CHECK_DEADLOCK FALSE
