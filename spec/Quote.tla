-------------------------------- MODULE Quote --------------------------------
(* C12 (and the literal part of C02): the text the minifier hands to eval() when it prints string
   literals is exactly one closed literal (or a juxtaposition of closed literals) that denotes the
   original string - whatever characters the input string contains.

   M: the escaping / quote-switching rules transcribed from ministring.MiniString.to_short / to_long
      (outer f-string text, evaluated as  quote + s + quote) and from f_string.Str._literals /
      f_string.Bytes._literals (string or bytes nested in a replacement field, evaluated as is).
   S: an independent lexer of Python string literal text (LexAll), written from the language
      reference: escape sequences, closing quotes, raw newlines, universal-newline translation.

   Strings are sequences over character classes.  TLC enumerates every string up to MaxLen over the
   input alphabet, every quote style and context, and checks  Lex(M(s)) = <<closed, s>>. *)
EXTENDS Naturals, Sequences, FiniteSets, TLC

CONSTANT MaxLen

\* characters that matter: both quotes, backslash, LF, CR, TAB, NUL, braces, a non-ASCII letter, and the
\* letters/digit that form escapes after a backslash
In  == {"sq", "dq", "bs", "nl", "cr", "nul", "lb", "na", "n", "x", "zero"}
Out == In \cup {"r", "t", "rb", "tab", "sp"}

RECURSIVE Strings(_)
Strings(n) == IF n = 0 THEN {<<>>} ELSE LET S == Strings(n - 1) IN S \cup {Append(s, c) : s \in {t \in S : Len(t) = n - 1}, c \in In}

\* strings crafted against quote handling: a run of 1..4 quote characters, a payload, another run of quote characters
\* (the payload class "na" stands for text that would be an expression if it ever ended up outside a literal)
RECURSIVE Run(_, _)
Run(q, n) == IF n = 0 THEN <<>> ELSE <<q>> \o Run(q, n - 1)
Attacks == { Run(q1, n1) \o mid \o Run(q2, n2) : q1 \in {"sq", "dq"}, q2 \in {"sq", "dq"}, n1 \in 1..4, n2 \in 0..4,
                                                mid \in {<<"na">>, <<"bs", "na">>, <<"na", "bs">>, <<"nl", "na">>} }

-----------------------------------------------------------------------------
\* M : MiniString
EscShort(c, q) == CASE c = "nl"  -> <<"bs", "n">>
                    [] c = "bs"  -> <<"bs", "bs">>
                    [] c = "cr"  -> <<"bs", "r">>
                    [] c = "tab" -> <<"bs", "t">>
                    [] c = "nul" -> <<"bs", "x", "zero", "zero">>
                    [] c = q     -> <<"bs", q>>
                    [] OTHER     -> <<c>>
EscLong(c, q)  == CASE c = "bs"  -> <<"bs", "bs">>
                    [] c = "cr"  -> <<"bs", "r">>
                    [] c = "tab" -> <<"bs", "t">>
                    [] c = "nul" -> <<"bs", "x", "zero", "zero">>
                    [] c = q     -> <<"bs", q>>
                    [] OTHER     -> <<c>>          \* a raw LF stays a raw LF inside triple quotes
RECURSIVE Flat(_, _, _)
Flat(s, q, long) == IF s = <<>> THEN <<>>
                    ELSE (IF long THEN EscLong(Head(s), q) ELSE EscShort(Head(s), q)) \o Flat(Tail(s), q, long)
\* the text MiniString.__str__ evaluates
MiniText(s, q, long) == IF long THEN <<q, q, q>> \o Flat(s, q, TRUE) \o <<q, q, q>>
                                ELSE <<q>> \o Flat(s, q, FALSE) \o <<q>>

\* M : f_string.Str / Bytes (nested literal, quote switching).  A quote style is <<q>> or <<q,q,q>>.
IsNL(c) == c \in {"nl", "cr"}
CanQuote(cur, c, pep701) == /\ cur # <<>>
                            /\ ~(IsNL(c) /\ Len(cur) = 1 /\ ~pep701)
                            /\ c # cur[1]
\* first allowed style that can hold c (the code compares the character with the whole quote string)
GetQuote(allowed, c, pep701) ==
    LET ok(k) == IF ~pep701 /\ IsNL(c) THEN Len(allowed[k]) = 3 ELSE <<c>> # allowed[k]
        ks == {k \in DOMAIN allowed : ok(k)}
    IN IF ks = {} THEN <<>> ELSE allowed[CHOOSE k \in ks : \A j \in ks : k <= j]
NestedEsc(c, isBytes) == IF isBytes THEN <<c>>
                         ELSE CASE c = "nl" -> <<"bs", "n">> [] c = "cr" -> <<"bs", "r">> [] c = "bs" -> <<"bs", "bs">> [] OTHER -> <<c>>
\* returns the sequence of literal texts, or <<"FAIL">> when no quote can be found (the code raises)
RECURSIVE Literals(_, _, _, _, _, _)
Literals(s, cur, lit, allowed, pep701, isBytes) ==
    IF s = <<>> THEN (IF lit = <<>> THEN <<>> ELSE <<lit \o cur>>)
    ELSE LET c == Head(s) IN
         IF CanQuote(cur, c, pep701)
         THEN Literals(Tail(s), cur, (IF lit = <<>> THEN cur ELSE lit) \o NestedEsc(c, isBytes), allowed, pep701, isBytes)
         ELSE LET nq == GetQuote(allowed, c, pep701) IN
              IF nq = <<>> THEN <<<<"FAIL">>>>
              ELSE (IF lit = <<>> THEN <<>> ELSE <<lit \o cur>>)
                   \o Literals(Tail(s), nq, nq \o NestedEsc(c, isBytes), allowed, pep701, isBytes)
\* literals are joined, with a blank between two whose adjacent characters are equal
RECURSIVE Join(_)
Join(ls) == IF ls = <<>> THEN <<>>
            ELSE IF Len(ls) = 1 THEN ls[1]
            ELSE LET a == ls[1] b == ls[2] IN
                 (IF a[Len(a)] = b[1] THEN a \o <<"sp">> ELSE a) \o Join(Tail(ls))
Refuses(s, pep701, isBytes) == \/ \E k \in DOMAIN s : s[k] = "nul"
                               \/ (\E k \in DOMAIN s : s[k] = "bs") /\ (isBytes \/ ~pep701)
NestedText(s, start, allowed, pep701, isBytes) == Join(Literals(s, start, <<>>, allowed, pep701, isBytes))

-----------------------------------------------------------------------------
\* S : a lexer for the text of (juxtaposed) string literals.
\* Result: <<"ok", value>> when the whole text is literals (and blanks) and nothing else, <<"bad", reason>> otherwise.
Decode(e) == CASE e = "n" -> <<"nl">> [] e = "r" -> <<"cr">> [] e = "t" -> <<"tab">> [] e = "bs" -> <<"bs">>
               [] e = "sq" -> <<"sq">> [] e = "dq" -> <<"dq">> [] e = "nl" -> <<>>            \* backslash-newline: continuation
               [] e = "zero" -> <<"nul">>
               [] OTHER -> <<"bs", e>>                                                         \* unknown escape: kept
\* body scanner: position i in text t, quote q, triple?, accumulated value
RECURSIVE Body(_, _, _, _, _)
Body(t, i, q, triple, acc) ==
    IF i > Len(t) THEN <<"bad", "unterminated">>
    ELSE LET c == t[i] IN
      IF c = q /\ ~triple THEN <<"closed", i + 1, acc>>
      ELSE IF c = q /\ triple /\ i + 2 <= Len(t) /\ t[i + 1] = q /\ t[i + 2] = q THEN <<"closed", i + 3, acc>>
      ELSE IF c = "bs" THEN
           (IF i + 1 > Len(t) THEN <<"bad", "unterminated">>
            ELSE IF t[i + 1] = "x" THEN
                 (IF i + 3 <= Len(t) /\ t[i + 2] = "zero" /\ t[i + 3] = "zero" THEN Body(t, i + 4, q, triple, acc \o <<"nul">>)
                  ELSE <<"bad", "invalid-x-escape">>)
            ELSE IF t[i + 1] = "cr" THEN Body(t, i + 2, q, triple, acc)                        \* backslash + (translated) newline
            ELSE Body(t, i + 2, q, triple, acc \o Decode(t[i + 1])))
      ELSE IF IsNL(c) /\ ~triple THEN <<"bad", "raw-newline-in-short-string">>
      ELSE IF c = "cr" THEN Body(t, i + 1, q, triple, acc \o <<"nl">>)                         \* universal newlines: a raw CR reads as LF
      ELSE Body(t, i + 1, q, triple, acc \o <<c>>)
RECURSIVE LexFrom(_, _, _)
LexFrom(t, i, acc) ==
    IF i > Len(t) THEN <<"ok", acc>>
    ELSE IF t[i] = "sp" THEN LexFrom(t, i + 1, acc)
    ELSE IF t[i] \notin {"sq", "dq"} THEN <<"bad", "residue-outside-a-literal">>
    ELSE LET q == t[i]
             triple == i + 2 <= Len(t) /\ t[i + 1] = q /\ t[i + 2] = q
             r == Body(t, IF triple THEN i + 3 ELSE i + 1, q, triple, <<>>)
         IN IF r[1] = "bad" THEN r ELSE LexFrom(t, r[2], acc \o r[3])
LexAll(t) == LexFrom(t, 1, <<>>)

-----------------------------------------------------------------------------
Quotes == {"sq", "dq"}
Styles == {<<"sq">>, <<"dq">>, <<"sq", "sq", "sq">>, <<"dq", "dq", "dq">>}
AllowedLists == { <<<<"dq">>, <<"sq">>, <<"dq", "dq", "dq">>, <<"sq", "sq", "sq">>>>,      \* pep701: everything
                  <<<<"sq">>, <<"dq", "dq", "dq">>, <<"sq", "sq", "sq">>>>,                \* outer used "
                  <<<<"dq">>, <<"dq", "dq", "dq">>, <<"sq", "sq", "sq">>>>,                \* outer used '
                  <<<<"dq">>, <<"sq">>, <<"sq", "sq", "sq">>>>,                            \* outer used triple "
                  <<<<"sq", "sq", "sq">>>>, <<<<"dq">>>> }

VARIABLES s, ctx
vars == <<s, ctx>>
Ctx == [kind : {"mini"}, q : Quotes, long : BOOLEAN]
       \cup [kind : {"nested"}, allowed : AllowedLists, start : 1..4, pep701 : BOOLEAN, bytes : BOOLEAN]
Init == /\ s \in Strings(MaxLen) \cup Attacks
        /\ ctx \in Ctx
        /\ (ctx.kind = "nested" => ctx.start <= Len(ctx.allowed))
Next == UNCHANGED vars
Spec == Init /\ [][Next]_vars

Evaluated == IF ctx.kind = "mini" THEN MiniText(s, ctx.q, ctx.long)
             ELSE NestedText(s, ctx.allowed[ctx.start], ctx.allowed, ctx.pep701, ctx.bytes)
\* the code does not evaluate anything for these
Skipped == \/ s = <<>>
           \/ (ctx.kind = "nested" /\ Refuses(s, ctx.pep701, ctx.bytes))

\* C12: whatever is evaluated is literals and nothing else (a value that differs only makes the printer give up)
ClosedLiteral == Skipped \/ LET t == Evaluated IN
                   (\E k \in DOMAIN t : t[k] = "FAIL") \/ LexAll(t)[1] = "ok" \/ LexAll(t)[2] # "residue-outside-a-literal"
\* C02 part: MiniString's text always denotes exactly the original string
MiniExact == (ctx.kind = "mini" /\ s # <<>>) => LexAll(Evaluated) = <<"ok", s>>
\* informational: nested literals that lex but to a different value (the code then discards the candidate)
NestedExact == (ctx.kind = "nested" /\ ~Skipped) => LexAll(Evaluated) = <<"ok", s>>
=============================================================================
