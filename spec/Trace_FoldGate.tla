--------------------------- MODULE Trace_FoldGate ---------------------------
(* judges monitored runs of the real minify() on  x = e : an eval() may happen only where S allows one *)
EXTENDS FoldGateS, IOUtils
Obs == ndJsonDeserialize(IOEnv.TRACE_FILE)
Verdict(r) == IF r.n_exec > 0 /\ ~HasClosedBin(r.e) THEN "c12:evaluated-an-expression-that-is-not-a-closed-literal"
              ELSE "ok"
VARIABLE i
TInit == i = 1
TNext == /\ i <= Len(Obs)
         /\ LET v == Verdict(Obs[i]) IN (v # "ok") => PrintT(ToJson(<<"VERDICT", Obs[i].id, v>>))
         /\ i' = i + 1
TSpec == TInit /\ [][TNext]_i
=============================================================================
