SPECIFICATION Spec
CONSTANT MaxLen = 3
CONSTANT CoreOnly = FALSE
INVARIANT EmitCase
CHECK_DEADLOCK FALSE
