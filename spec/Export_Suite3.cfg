SPECIFICATION Spec
CONSTANT MaxLen = 3
INVARIANT EmitCase
CHECK_DEADLOCK FALSE
