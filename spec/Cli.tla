-------------------------------- MODULE Cli --------------------------------
(* M: main() of python_minifier/__main__.py, one action per step the code takes
   (parse/validate arguments, pick the next source module, read it, minify it, apply the size
   rule, open the destination, write), over a small abstract file tree in which every file has a
   reach (how the path arguments reach it) and a class (how reading / minifying / writing it
   behaves).  TLC checks M |= S (CliS.tla) for every tree, mode, argument shape and failure position
   within the bound.  Files are visited in any order (os.walk order is the platform's). *)
EXTENDS CliS, Json

CONSTANTS NFiles
Files == 1..NFiles

VARIABLES reach, class, shape, mode, force,      \* the run's configuration (chosen in Init)
          fs,          \* file -> "pre" | "min" | "trunc"   (content relative to the start)
          todo,        \* targets not yet visited
          cur, pc,     \* file in progress and the step within the loop body
          outw,        \* what was written to the --output file: <<"none", 0>> | <<"pre"|"min", f>>
          sout,        \* sequence of contents written to stdout
          listed,      \* files whose path was printed
          opened,      \* files opened for writing
          exit         \* "running" | "ok" | "fail" | "rejected"
cfg  == <<reach, class, shape, mode, force>>
vars == <<reach, class, shape, mode, force, fs, todo, cur, pc, outw, sout, listed, opened, exit>>

\* abstract sizes: minified is smaller, equal or larger than what was read
ReadLen(f) == 2
ApiLen(f)  == CASE class[f] \in {"shrinks", "legacy", "readonly"} -> 1
                [] class[f] \in {"equal", "empty"}      -> 2
                [] class[f] = "grows"                   -> 3
                [] OTHER                                -> 0

Targets == {f \in Files : IsTarget(reach[f])}

ShapeOK == CASE shape = "one_file" -> Cardinality({f \in Files : reach[f] = "named"}) = 1 /\ Targets = {f \in Files : reach[f] = "named"}
             [] shape = "many"     -> Cardinality({f \in Files : reach[f] = "named"}) >= 2
             [] shape = "dir"      -> {f \in Files : reach[f] = "named"} = {} /\ \E f \in Files : reach[f] # "outside"
             [] OTHER              -> FALSE

Init ==
    /\ reach \in [Files -> Reach]
    /\ class \in [Files -> Class]
    /\ shape \in {"one_file", "many", "dir"}
    /\ mode \in Modes
    /\ force \in BOOLEAN
    /\ ShapeOK
    /\ fs = [f \in Files |-> "pre"]
    /\ todo = {}
    /\ cur = 0 /\ pc = "args"
    /\ outw = <<"none", 0>> /\ sout = <<>> /\ listed = {} /\ opened = {}
    /\ exit = "running"

\* parse_args(): documented rejections exit before anything else happens
ParseArgs ==
    /\ pc = "args"
    /\ IF ArgsRejected(shape, mode)
          THEN exit' = "rejected" /\ pc' = "done" /\ todo' = todo
          ELSE exit' = exit /\ pc' = "next" /\ todo' = Targets
    /\ UNCHANGED <<cfg, fs, cur, outw, sout, listed, opened>>

\* for path in source_modules(args): ... (any order)
NextFile ==
    /\ pc = "next" /\ todo # {}
    /\ \E f \in todo :
         /\ cur' = f /\ todo' = todo \ {f}
         /\ listed' = IF mode \in {"output", "in_place"} THEN listed \cup {f} ELSE listed
    /\ pc' = "read"
    /\ UNCHANGED <<cfg, fs, outw, sout, opened, exit>>

Finish ==
    /\ pc = "next" /\ todo = {}
    /\ exit' = "ok" /\ pc' = "done"
    /\ UNCHANGED <<cfg, fs, todo, cur, outw, sout, listed, opened>>

\* open(path, 'rb').read()
Read ==
    /\ pc = "read"
    /\ IF class[cur] = "unreadable"
          THEN exit' = "fail" /\ pc' = "done"
          ELSE exit' = exit /\ pc' = "minify"
    /\ UNCHANGED <<cfg, fs, todo, cur, outw, sout, listed, opened>>

\* do_minify(): minify() may raise; the size rule may say "not beneficial"
Minify ==
    /\ pc = "minify"
    /\ IF class[cur] \in {"invalid", "undecodable"}
          THEN exit' = "fail" /\ pc' = "done"
          ELSE /\ exit' = exit
               /\ pc' = IF ~force /\ ApiLen(cur) > ReadLen(cur) THEN "keep" ELSE "emit"
    /\ UNCHANGED <<cfg, fs, todo, cur, outw, sout, listed, opened>>

\* MinificationNotBeneficialError branch
Keep ==
    /\ pc = "keep"
    /\ CASE mode = "in_place" -> UNCHANGED <<fs, outw, sout, opened>>
         [] mode = "output"   -> outw' = <<"pre", cur>> /\ UNCHANGED <<fs, sout, opened>>
         [] mode = "stdout"   -> sout' = Append(sout, <<"pre", cur>>) /\ UNCHANGED <<fs, outw, opened>>
    /\ pc' = "next"
    /\ UNCHANGED <<cfg, todo, cur, listed, exit>>

\* open(path, 'wb') truncates; it fails for a read-only file and leaves it alone
OpenDest ==
    /\ pc = "emit"
    /\ CASE mode = "in_place" ->
              IF class[cur] = "readonly"
              THEN exit' = "fail" /\ pc' = "done" /\ UNCHANGED <<fs, opened>>
              ELSE /\ fs' = [fs EXCEPT ![cur] = "trunc"] /\ opened' = opened \cup {cur}
                   /\ pc' = "write" /\ exit' = exit
         [] OTHER -> pc' = "write" /\ UNCHANGED <<fs, opened, exit>>
    /\ UNCHANGED <<cfg, todo, cur, outw, sout, listed>>

Write ==
    /\ pc = "write"
    /\ CASE mode = "in_place" -> fs' = [fs EXCEPT ![cur] = "min"] /\ UNCHANGED <<outw, sout>>
         [] mode = "output"   -> outw' = <<"min", cur>> /\ UNCHANGED <<fs, sout>>
         [] mode = "stdout"   -> sout' = Append(sout, <<"min", cur>>) /\ UNCHANGED <<fs, outw>>
    /\ pc' = "next"
    /\ UNCHANGED <<cfg, todo, cur, listed, opened, exit>>

Next == ParseArgs \/ NextFile \/ Finish \/ Read \/ Minify \/ Keep \/ OpenDest \/ Write
Spec == Init /\ [][Next]_vars

-----------------------------------------------------------------------------
\* M |= S
Done == pc = "done"

RejectBeforeWrite == exit = "rejected" => /\ \A f \in Files : fs[f] = "pre"
                                          /\ outw = <<"none", 0>> /\ sout = <<>> /\ opened = {} /\ listed = {}

\* C15 post-state: only at the end may no file be truncated; targets hold pre or min; non-targets untouched
PostStateClean == Done => \A f \in Files : PostAllowed(reach[f], class[f], fs[f], force)
OnlyTargetsOpened == opened \subseteq Targets
FailStops == (Done /\ exit = "fail") => /\ fs[cur] = "pre"
                                        /\ \A f \in todo : fs[f] = "pre"
FailureIsReported == Done =>
    /\ (exit = "ok" => \A f \in Targets : ~Fails(class[f]) /\ ~(class[f] = "readonly" /\ mode = "in_place"))
    /\ (exit = "fail" => Fails(class[cur]) \/ class[cur] = "readonly")
\* a file is never left truncated once the run is over, and is truncated only while it is being written
NoTruncatedAtEnd == Done => \A f \in Files : fs[f] # "trunc"
TruncOnlyCurrent == \A f \in Files : fs[f] = "trunc" => (f = cur /\ pc = "write")

\* C14: everything written is at most as long as what was read, unless forced
WrittenLen(w) == IF w[1] = "pre" THEN ReadLen(w[2]) ELSE ApiLen(w[2])
NeverLarger ==
    /\ (outw[1] # "none" => NeverLargerOK(ReadLen(outw[2]), WrittenLen(outw), force))
    /\ \A k \in 1..Len(sout) : NeverLargerOK(ReadLen(sout[k][2]), WrittenLen(sout[k]), force)
    /\ \A f \in Files : fs[f] = "min" => NeverLargerOK(ReadLen(f), ApiLen(f), force)
SizeRule ==
    /\ (outw[1] # "none" => SizeRuleOK(ReadLen(outw[2]), ApiLen(outw[2]), outw[1] = "min", outw[1] = "pre", force))
    /\ \A k \in 1..Len(sout) : SizeRuleOK(ReadLen(sout[k][2]), ApiLen(sout[k][2]), sout[k][1] = "min", sout[k][1] = "pre", force)


\* export of the enumerated configurations (Export_Cli.cfg): one JSON line per initial state
Emit == PrintT(ToJson([reach |-> reach, class |-> class, shape |-> shape, mode |-> mode, force |-> force]))
Stutter == UNCHANGED vars
=============================================================================
