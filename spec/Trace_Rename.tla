---------------------------- MODULE Trace_Rename ----------------------------
(* TLC judges observed renamings of the real minifier: for each concretised abstract program, the
   spelling of every occurrence and declaration in the input and in the output, evaluated with
   Python's own rules (PyScope.tla) on both sides, plus what the compiler and a run of both
   programs said.  Clause prefixes: c03 (bindings), c04 (interface), c09 (taint), c10 (preserve). *)
EXTENDS PyScope, Json, IOUtils

Obs == ndJsonDeserialize(IOEnv.TRACE_FILE)
SeqSet(q) == {q[k] : k \in 1..Len(q)}

Verdict(o) ==
    LET par  == o.par
        kind == o.kind
        S    == 1..Len(par)
        occ  == o.occ
        I    == 1..Len(occ)
        D    == 1..Len(o.decl)
        InNames  == {occ[i].name : i \in I} \cup {o.decl[d].name : d \in D}
        A    == 1..Len(o.alias)        \* inserted `new = old` re-bindings of keyword-callable parameters
        OutNames == {occ[i].out : i \in I} \cup {o.decl[d].out : d \in D} \cup {o.alias[a].new : a \in A} \cup {o.alias[a].old : a \in A}
        UIn  == [s \in S |-> [n \in InNames |-> {occ[i].how : i \in {i \in I : occ[i].scope = s /\ occ[i].name = n}}
                                                \cup {o.decl[d].how : d \in {d \in D : o.decl[d].scope = s /\ o.decl[d].name = n}}]]
        UOut == [s \in S |-> [m \in OutNames |-> {occ[i].how : i \in {i \in I : occ[i].scope = s /\ occ[i].out = m}}
                                                \cup {o.decl[d].how : d \in {d \in D : o.decl[d].scope = s /\ o.decl[d].out = m}}
                                                \cup (IF \E a \in A : o.alias[a].scope = s /\ o.alias[a].new = m THEN {"store"} ELSE {})
                                                \cup (IF \E a \in A : o.alias[a].scope = s /\ o.alias[a].old = m THEN {"load"} ELSE {})]]
        \* a re-bound parameter and its alias are one binding: spell the alias like the parameter
        Canon(b, m) == IF b[1] = "L" /\ \E a \in A : o.alias[a].scope = b[2] /\ o.alias[a].new = m
                       THEN (CHOOSE a \in A : o.alias[a].scope = b[2] /\ o.alias[a].new = m) ELSE 0
        CanonName(b, m) == IF Canon(b, m) = 0 THEN m ELSE o.alias[Canon(b, m)].old
        At(i)  == OccScope(par, kind, occ[i].scope, occ[i].how)
        inb  == [i \in I |-> PyB(par, kind, UIn, S, At(i), occ[i].name)]
        outb == [i \in I |-> PyB(par, kind, UOut, S, At(i), occ[i].out)]
        ink  == [i \in I |-> <<inb[i], occ[i].name>>]
        outk == [i \in I |-> <<outb[i], CanonName(outb[i], occ[i].out)>>]
        infb  == [i \in I |-> occ[i].how # "walrus" /\ Fallback(par, kind, UIn, S, occ[i].scope, occ[i].name)]
        outfb == [i \in I |-> occ[i].how # "walrus" /\ Fallback(par, kind, UOut, S, occ[i].scope, occ[i].out)]
        Changed == \E i \in I : occ[i].out # occ[i].name
        DeclChanged == \E d \in D : o.decl[d].out # o.decl[d].name
        \* a declaration must be spelled like the occurrences it governs
        DeclOK == \A d \in D : \A i \in I : (occ[i].scope = o.decl[d].scope /\ occ[i].name = o.decl[d].name) => occ[i].out = o.decl[d].out
        GB(n) == GlobalBound(par, kind, UIn, S, n)
        \* a name spelled eval / exec / locals / globals / vars that is read, resolves to the global scope and is never bound by the module
        \* IS the builtin: the module is tainted wherever that read happens (class scopes in between are skipped by the language)
        Trig == IF "trigger_names" \in DOMAIN o THEN SeqSet(o.trigger_names) ELSE {}
        RefersToBuiltin == \E i \in I : occ[i].name \in Trig /\ occ[i].how = "load" /\ inb[i][1] = "G" /\ ~GB(occ[i].name)
        Tainted == o.tainted \/ RefersToBuiltin
    IN  IF Tainted /\ (Changed \/ DeclChanged \/ A # {}) THEN "c09:name-changed-in-a-tainted-module"
        ELSE IF \E i \in I : inb[i][1] = "G" /\ occ[i].name \in SeqSet(o.presG) /\ occ[i].out # occ[i].name THEN "c10:preserved-global-renamed"
        ELSE IF \E i \in I : inb[i][1] = "L" /\ occ[i].name \in SeqSet(o.presL) /\ occ[i].out # occ[i].name THEN "c10:preserved-local-renamed"
        ELSE IF \E i \in I : inb[i][1] = "G" /\ ~o.rg /\ occ[i].out # occ[i].name THEN "c04:global-renamed-without-rename-globals"
        ELSE IF \E i \in I : inb[i][1] = "L" /\ ~o.rl /\ kind[inb[i][2]] # "g" /\ occ[i].out # occ[i].name THEN "c04:local-renamed-without-rename-locals"
        ELSE IF \E i \in I : inb[i][1] = "L" /\ kind[inb[i][2]] = "c" /\ occ[i].out # occ[i].name THEN "c04:class-attribute-renamed"
        ELSE IF \E i \in I : occ[i].how = "param" /\ ~occ[i].self_param /\ occ[i].out # occ[i].name THEN "c04:keyword-callable-parameter-renamed"
        ELSE IF \E i \in I : inb[i][1] = "G" /\ ~GB(occ[i].name) /\ occ[i].out # occ[i].name THEN "c04:name-never-bound-by-the-module-renamed"
        ELSE IF \E i \in I : infb[i] /\ ~GB(occ[i].name) /\ occ[i].out # occ[i].name THEN "c04:name-never-bound-by-the-module-renamed"
        ELSE IF ~DeclOK THEN "c03:declaration-and-uses-spelled-differently"
        ELSE IF ~Compilable(par, kind, UOut, S, OutNames) THEN "c03:output-violates-a-static-scoping-rule"
        ELSE IF \E i \in I : inb[i][1] # outb[i][1] THEN "c03:home-scope-changed"
        ELSE IF \E i, j \in I : (ink[i] = ink[j]) # (outk[i] = outk[j]) THEN "c03:bindings-merged-or-split"
        ELSE IF \E i \in I : infb[i] # outfb[i] THEN "c03:class-fallback-changed"
        ELSE IF \E i, j \in I : infb[i] /\ ((<<<<"G", 0>>, occ[i].name>> = ink[j]) # (<<<<"G", 0>>, occ[i].out>> = outk[j])) THEN "c03:class-fallback-target-changed"
        ELSE IF ~o.compiles THEN "c03:output-rejected-by-the-compiler"
        ELSE IF ~o.run_equal THEN "c03:behaviour-differs-although-the-static-rules-hold"
        ELSE "ok"

VARIABLE i
Init == i = 1
Next == /\ i <= Len(Obs)
        /\ LET v == Verdict(Obs[i]) IN (v # "ok") => PrintT(ToJson(<<"VERDICT", Obs[i].id, v>>))
        /\ i' = i + 1
Spec == Init /\ [][Next]_i
=============================================================================
