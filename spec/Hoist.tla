-------------------------------- MODULE Hoist --------------------------------
(* Enumeration of the cases of HoistS.tla: every non-empty set of at most MaxUses places x literal kind; TLC checks M |= S. *)
EXTENDS HoistS

CONSTANT MaxUses

VARIABLES uses, lit
vars == <<uses, lit>>
Init == /\ uses \in {P \in SUBSET Places : P # {} /\ Cardinality(P) <= MaxUses}
        /\ lit \in {"str", "bytes", "none", "true"}
        /\ (17 \in uses => lit = "str") /\ (16 \in uses => lit = "str") /\ (14 \in uses => lit = "str")
Next == UNCHANGED vars
Spec == Init /\ [][Next]_vars

\* M |= S
HoistSound == MUses(uses, lit) # {} =>
    /\ Kind[MHome(uses, lit)] \in {"m", "f"}
    /\ \A p \in MUses(uses, lit) : Visible(MHome(uses, lit), EvalScope(p))
    /\ \A p \in uses : MustKeepLiteral(p) => p \notin MUses(uses, lit)
\* the placement is the deepest one that still encloses every use (not required by the property; keeps aliases local)
Deepest == MUses(uses, lit) # {} => \A s \in Scopes : (Kind[s] = "f" /\ (\A p \in MUses(uses, lit) : Visible(s, EvalScope(p)))) => s \in Ancestors(MHome(uses, lit))

EmitCase == PrintT(ToJson([uses |-> SetToSeqOrd(uses), lit |-> lit,
                           home |-> IF MUses(uses, lit) = {} THEN 0 ELSE MHome(uses, lit)]))
=============================================================================
