------------------------------- MODULE Rename -------------------------------
(* M: the minifier's scope analysis and name assigner, one action per step of the code
   (rename/mapper.py, bind_names.py, resolve_names.py, util.allow_rename_*, renamer.NameAssigner),
   and the envelope properties of C03 / C04 / C09 / C10 evaluated with Python's own rules
   (PyScope.tla) on the renamed program.

   Abstract programs as in PyScope.  Options are part of the initial state, so one TLC run covers
   every program in the bound under every combination of rename_locals / rename_globals / taint /
   preserve lists.  The assigner processes bindings in ANY order (the code sorts by mention count;
   every order is covered) and may rename or decline whenever the code's cost model could do either. *)
EXTENDS PyScope, Json

\* the same rules without the PEP 709 leak: used to attribute a violation to that rule alone (known finding D18)
Old == INSTANCE PyScope WITH Pep709 <- FALSE

CONSTANTS N,            \* scopes 1..N
          NNames,       \* 1: the name x only; 2: x and y
          FullY,        \* TRUE: y may be used in every way; FALSE: load / store / walrus only (smaller space)
          Skeleton,     \* TRUE: only the scope skeleton module > function > function > {comprehension, lambda | comprehension | function} (PEP 709 shapes, N = 5)
          AnyOrder,     \* TRUE: the assigner may process bindings in any order; FALSE: one fixed order (outer scopes first), for the large skeleton
          ChainOnly,    \* TRUE: only the scope tree that is one chain 1 > 2 > ... > N (deep nesting: class in class in function ...)
          AllOptions    \* TRUE: every option combination; FALSE: rename_locals and rename_globals on, nothing preserved, not tainted
Names == IF NNames = 1 THEN {"x"} ELSE {"x", "y"}
Scopes == 1..N
Pool   == <<"A", "B", "C">>
Hows   == {"load", "store", "gdecl", "ndecl", "param", "walrus"}
FirstName == "x"

VARIABLES par, kind, uses,                     \* the program
          renameLocals, renameGlobals, tainted, presL, presG,      \* options (tainted = the module has a taint trigger)
          pc, newname, assigned, todo
prog == <<par, kind, uses>>
opts == <<renameLocals, renameGlobals, tainted, presL, presG>>
vars == <<par, kind, uses, renameLocals, renameGlobals, tainted, presL, presG, pc, newname, assigned, todo>>

-----------------------------------------------------------------------------
\* well-formed per-scope use sets
OKfull(k, u) ==
    CASE k = "m" -> u \subseteq {"load", "store"}
      [] k = "f" -> /\ u \subseteq {"load", "store", "gdecl", "ndecl", "param"}
                    /\ ~({"gdecl", "ndecl"} \subseteq u)
                    /\ ("param" \in u => u \cap {"gdecl", "ndecl"} = {})
      [] k = "c" -> /\ u \subseteq {"load", "store", "gdecl", "ndecl"}
                    /\ ~({"gdecl", "ndecl"} \subseteq u)
      [] k = "g" -> /\ u \subseteq {"load", "store", "walrus"}
                    /\ ~({"store", "walrus"} \subseteq u)
      [] k = "l" -> u \subseteq {"load", "param"}
OKsmall(k, u) ==
    CASE k = "g" -> u \subseteq {"load", "store", "walrus"} /\ ~({"store", "walrus"} \subseteq u)
      [] k = "l" -> u \subseteq {"load"}
      [] OTHER   -> u \subseteq {"load", "store"}
ValidUses(k) == IF Skeleton /\ k = "m" THEN {[n \in Names |-> {}]}
                ELSE IF Skeleton THEN [Names -> SUBSET (IF k = "l" THEN {"load"} ELSE {"load", "store"})]
                ELSE { f \in [Names -> SUBSET Hows] :
                    \A n \in Names : IF (n = FirstName \/ FullY) /\ ~Skeleton THEN OKfull(k, f[n]) ELSE OKsmall(k, f[n]) }

RECURSIVE SeqProd(_)
SeqProd(ks) == IF ks = <<>> THEN {<<>>}
               ELSE { <<u>> \o r : u \in ValidUses(Head(ks)), r \in SeqProd(Tail(ks)) }
Trees    == IF Skeleton THEN {<<0, 1, 2, 3, 3>>} ELSE IF ChainOnly THEN {[s \in Scopes |-> s - 1]} ELSE { p \in [Scopes -> 0..N] : p[1] = 0 /\ \A s \in 2..N : p[s] >= 1 /\ p[s] < s }
KindSeqs == IF Skeleton THEN {<<"m", "f", "f", "g", "l">>, <<"m", "f", "f", "g", "g">>, <<"m", "f", "f", "g", "f">>}
            ELSE { k \in [Scopes -> {"m", "f", "c", "g", "l"}] : k[1] = "m" /\ \A s \in 2..N : k[s] # "m" }

-----------------------------------------------------------------------------
\* ---------- M : mapper / binder / resolver
\* mapper.add_parent: names a class body loads are put into its nonlocal_names
NonlocalName(s, n) == "ndecl" \in uses[s][n] \/ (kind[s] = "c" /\ "load" \in uses[s][n])
GlobalName(s, n)   == "gdecl" \in uses[s][n]
RECURSIVE NLNS(_)
NLNS(s) == IF par[s] = 0 THEN 1 ELSE IF kind[par[s]] = "c" THEN NLNS(par[s]) ELSE par[s]
WT(s) == WTarget(par, kind, s)

BindHome(s, n) == IF GlobalName(s, n) /\ s # 1 THEN 1 ELSE s
\* does the binder create a binding for n in namespace h
MBindsAt(h, n) ==
    \/ \E s \in Scopes : /\ uses[s][n] \cap {"store", "param"} # {} /\ ~NonlocalName(s, n) /\ BindHome(s, n) = h
    \/ \E s \in Scopes : "gdecl" \in uses[s][n] /\ h = 1
    \/ \E c \in Scopes : /\ "walrus" \in uses[c][n]
                         /\ LET t == IF kind[c] = "g" THEN WT(c) ELSE c IN ~NonlocalName(t, n) /\ BindHome(t, n) = h
\* resolve_names.get_binding
RECURSIVE MGet(_, _)
MGet(n, s) == IF GlobalName(s, n) /\ s # 1 THEN MGet(n, 1)
              ELSE IF NonlocalName(s, n) /\ s # 1 THEN MGet(n, NLNS(s))
              ELSE IF MBindsAt(s, n) THEN s
              ELSE IF s # 1 THEN MGet(n, NLNS(s)) ELSE 1
MHome(s, n)  == MGet(n, s)
MHomeW(c, n) == MGet(n, IF kind[c] = "g" THEN WT(c) ELSE c)

Bindings == { <<h, n>> \in Scopes \X Names :
                \/ \E s \in Scopes : uses[s][n] \ {"walrus"} # {} /\ MHome(s, n) = h
                \/ \E c \in Scopes : "walrus" \in uses[c][n] /\ MHomeW(c, n) = h }

RECURSIVE Chain(_, _)
Chain(s, h) == IF s = h \/ s = 0 THEN {h} ELSE {s} \cup Chain(par[s], h)
\* renamer.reservation_scope (with the repair of D6: a walrus target's chain starts at the comprehension that contains it)
ResScope(b) == LET h == b[1] n == b[2] IN
    {h} \cup UNION { Chain(s, h) : s \in { s \in Scopes : uses[s][n] \ {"walrus"} # {} /\ MHome(s, n) = h } }
        \cup UNION { Chain(c, h) : c \in { c \in Scopes : "walrus" \in uses[c][n] /\ MHomeW(c, n) = h } }

\* only references that are `global` statements or loads: the name is provided from outside (repair of D16)
OnlyDeclared(n) == /\ \E s \in Scopes : "gdecl" \in uses[s][n]
                   /\ \A s \in Scopes : MHome(s, n) = 1 => uses[s][n] \subseteq {"gdecl", "load"}
                   /\ \A c \in Scopes : "walrus" \in uses[c][n] => MHomeW(c, n) # 1

\* util.arg_rename_in_place: the first parameter of a function defined directly in a class body (self / cls) is renamed in place;
\* the documentation gives that name up.  Every other parameter keeps its spelling in the signature.
FirstParam(s) == IF "param" \in uses[s]["x"] THEN "x" ELSE "y"
InPlace(s, n) == kind[s] = "f" /\ kind[par[s]] = "c" /\ "param" \in uses[s][n] /\ n = FirstParam(s)

Pinned(b) == LET h == b[1] n == b[2] IN
    \/ tainted
    \/ kind[h] = "c"                                                    \* becomes a class attribute
    \/ ~MBindsAt(h, n)                                                  \* unresolved: created pinned at module level
    \/ (h = 1 /\ (~renameGlobals \/ n \in presG))
    \/ (h # 1 /\ (~renameLocals \/ n \in presL))
    \/ \E s \in Scopes : "param" \in uses[s][n] /\ MHome(s, n) = h /\ ~InPlace(s, n)     \* callable by keyword (and lambda parameters)
    \/ \E s \in Scopes : kind[s] = "c" /\ "store" \in uses[s][n] /\ NonlocalName(s, n) /\ MHome(s, n) = h
    \/ (h = 1 /\ \E s \in Scopes : kind[s] = "c" /\ "store" \in uses[s][n] /\ NonlocalName(s, n))      \* repair of D1
    \/ (h = 1 /\ OnlyDeclared(n))                                                                    \* repair of D16

Avail(nm, sc) == \A s \in sc : nm \notin assigned[s]
FirstAvail(sc) == LET i == CHOOSE i \in 1..Len(Pool) : Avail(Pool[i], sc) /\ \A j \in 1..(i-1) : ~Avail(Pool[j], sc) IN Pool[i]

-----------------------------------------------------------------------------
ProgOK == /\ Compilable(par, kind, uses, Scopes, Names)
          /\ \E s \in Scopes, n \in Names : uses[s][n] # {}
Init ==
    /\ par \in Trees
    /\ kind \in KindSeqs
    /\ \E us \in SeqProd(kind) : uses = us
    /\ ProgOK
    /\ (Skeleton => (N = 5 /\ \A n \in Names : uses[1][n] = {}))
    /\ renameLocals \in BOOLEAN /\ renameGlobals \in BOOLEAN /\ tainted \in BOOLEAN
    /\ presL \in {{}, {FirstName}} /\ presG \in {{}, {FirstName}}
    /\ (~AllOptions => (renameLocals /\ renameGlobals /\ ~tainted /\ presL = {} /\ presG = {}))
    /\ (tainted => (renameLocals /\ renameGlobals /\ presL = {} /\ presG = {}))       \* taint overrides everything: one combination suffices
    /\ (presL # {} => renameLocals) /\ (presG # {} => renameGlobals)
    /\ pc = "reserve"
    /\ newname = [b \in {} |-> ""]
    /\ assigned = [s \in Scopes |-> {}]
    /\ todo = {}

\* NameAssigner.__call__: reserved names first (pinned bindings in their reservation scope, preserved globals in the module)
Reserve ==
    /\ pc = "reserve"
    /\ newname' = [b \in Bindings |-> b[2]]
    /\ assigned' = [s \in Scopes |-> { b[2] : b \in { b \in Bindings : Pinned(b) /\ s \in ResScope(b) } }
                                     \cup (IF s = 1 THEN presG ELSE {})]
    /\ todo' = Bindings
    /\ pc' = "assign"
    /\ UNCHANGED <<prog, opts>>

Assign ==
    /\ pc = "assign" /\ todo # {}
    /\ \E b \in todo :
         LET sc == ResScope(b) IN
         /\ (AnyOrder \/ \A c \in todo : (b[1] < c[1] \/ (b[1] = c[1] /\ (b[2] = "x" \/ c[2] = "y"))))
         /\ todo' = todo \ {b}
         /\ IF Pinned(b)
              THEN /\ newname' = newname
                   /\ assigned' = [s \in Scopes |-> IF s \in sc THEN assigned[s] \cup {b[2]} ELSE assigned[s]]
              ELSE \/ LET nm == FirstAvail(sc) IN           \* rename
                        /\ newname' = [newname EXCEPT ![b] = nm]
                        /\ assigned' = [s \in Scopes |-> IF s \in sc THEN assigned[s] \cup {nm} ELSE assigned[s]]
                   \/ /\ Avail(b[2], sc)                      \* decline (cost model), only while the old name is still free
                      /\ newname' = newname
                      /\ assigned' = [s \in Scopes |-> IF s \in sc THEN assigned[s] \cup {b[2]} ELSE assigned[s]]
    /\ UNCHANGED <<prog, opts, pc>>

Finish == pc = "assign" /\ todo = {} /\ pc' = "done" /\ UNCHANGED <<prog, opts, newname, assigned, todo>>

Next == Reserve \/ Assign \/ Finish
Spec == Init /\ [][Next]_vars

-----------------------------------------------------------------------------
\* ---------- envelope: Python's rules on the renamed program
OutNames == Names \cup {Pool[i] : i \in 1..Len(Pool)}
Sp(s, n)  == newname[<<MHome(s, n), n>>]
SpW(c, n) == newname[<<MHomeW(c, n), n>>]
OutUses == [s \in Scopes |-> [m \in OutNames |->
              UNION { uses[s][n] \ {"walrus"} : n \in { n \in Names : uses[s][n] \ {"walrus"} # {} /\ Sp(s, n) = m } }
              \cup (IF \E n \in Names : "walrus" \in uses[s][n] /\ SpW(s, n) = m THEN {"walrus"} ELSE {})]]

\* occurrences: (scope, original name, is-walrus)
Occ == { <<s, n, FALSE>> : s \in Scopes, n \in Names } \cup { <<s, n, TRUE>> : s \in Scopes, n \in Names }
Live(o) == IF o[3] THEN "walrus" \in uses[o[1]][o[2]] ELSE uses[o[1]][o[2]] \ {"walrus"} # {}
EvalAt(o) == IF o[3] THEN OccScope(par, kind, o[1], "walrus") ELSE o[1]
OutSp(o) == IF o[3] THEN SpW(o[1], o[2]) ELSE Sp(o[1], o[2])
LiveOcc == { o \in Occ : Live(o) }

\* C03, parametrised by the resolution rules in force (PB: binding of an occurrence; FB: class fallback)
EnvOK(PB(_, _, _, _, _, _), FB(_, _, _, _, _, _)) ==
    LET InB(o)  == <<PB(par, kind, uses, Scopes, EvalAt(o), o[2]), o[2]>>
        OutB(o) == <<PB(par, kind, OutUses, Scopes, EvalAt(o), OutSp(o)), OutSp(o)>>
        InF(o)  == ~o[3] /\ FB(par, kind, uses, Scopes, o[1], o[2])
        OutF(o) == ~o[3] /\ FB(par, kind, OutUses, Scopes, o[1], OutSp(o))
    IN /\ \A o1, o2 \in LiveOcc :
            /\ (InB(o1) = InB(o2)) <=> (OutB(o1) = OutB(o2))
            /\ (InF(o1) /\ <<<<"G", 0>>, o1[2]>> = InB(o2)) <=> (OutF(o1) /\ <<<<"G", 0>>, OutSp(o1)>> = OutB(o2))
            /\ InF(o1) <=> OutF(o1)
       /\ \A o \in LiveOcc : InB(o)[1] = OutB(o)[1]                                            \* same home
       /\ \A o \in LiveOcc :                                                                   \* never-bound names keep their spelling
            /\ (InB(o)[1][1] = "G" /\ ~GlobalBound(par, kind, uses, Scopes, o[2])) => OutSp(o) = o[2]
            /\ (InF(o) /\ ~GlobalBound(par, kind, uses, Scopes, o[2])) => OutSp(o) = o[2]
\* a violation that exists only under the PEP 709 rule is the known finding D18
KF_D18 == Pep709 /\ EnvOK(Old!PyB, Old!Fallback)
NoCapture == pc = "done" => (EnvOK(PyB, Fallback) \/ KF_D18)
InB(o)   == <<PyB(par, kind, uses, Scopes, EvalAt(o), o[2]), o[2]>>
StaysCompilable == pc = "done" => Compilable(par, kind, OutUses, Scopes, OutNames)

\* C04: class-scope bindings, parameters and names the module uses but never binds keep their spelling;
\* without rename_globals every module-level binding keeps its spelling
InterfaceKept == pc = "done" =>
    /\ \A o \in LiveOcc : (InB(o)[1][1] = "L" /\ kind[InB(o)[1][2]] = "c") => OutSp(o) = o[2]
    /\ \A s \in Scopes, n \in Names : ("param" \in uses[s][n] /\ ~InPlace(s, n)) => Sp(s, n) = n
    /\ \A o \in LiveOcc : (InB(o)[1][1] = "G" /\ ~renameGlobals) => OutSp(o) = o[2]
\* C09: a tainted module keeps every spelling
Frozen == (pc = "done" /\ tainted) => \A o \in LiveOcc : OutSp(o) = o[2]
\* C10: preserved names keep their spelling at every occurrence of a binding of the preserved kind
Preserved == pc = "done" =>
    /\ \A o \in LiveOcc : (InB(o)[1][1] = "G" /\ o[2] \in presG) => OutSp(o) = o[2]
    /\ \A o \in LiveOcc : (InB(o)[1][1] = "L" /\ o[2] \in presL) => OutSp(o) = o[2]
\* the assigner only ever adds to the per-namespace name sets
AssignedMonotone == [][\A s \in Scopes : assigned[s] \subseteq assigned'[s]]_vars

\* export of the enumerated programs (Export_Rename*.cfg): one JSON line per program (options are chosen by the harness)
EmitProgram == (renameLocals /\ renameGlobals /\ ~tainted /\ presL = {} /\ presG = {} /\ pc = "reserve") =>
    PrintT(ToJson([par |-> par, kind |-> kind, uses |-> uses]))
Stutter == UNCHANGED vars
=============================================================================
