SPECIFICATION Spec
CONSTANTS N = 5
 NNames = 2
 FullY = FALSE
 Pep709 = TRUE
 Skeleton = TRUE
 ChainOnly = FALSE
 AnyOrder = FALSE
 AllOptions = FALSE
INVARIANT NoCapture
INVARIANT StaysCompilable
INVARIANT InterfaceKept
INVARIANT Frozen
INVARIANT Preserved
PROPERTY AssignedMonotone
CHECK_DEADLOCK FALSE
