---------------------------- MODULE Trace_Printer ----------------------------
(* TLC judges round trips through the real printer, observed on each interpreter version:
   text (the intended tree, given as fully parenthesised source) -> parse -> ModulePrinter -> parse,
   compared strictly by the interpreter (types, values, sign of zero).  For cells of the
   (slot, kind) space the judge also re-evaluates S: where the grammar needs parentheses
   (~BareOK) and the printed text is as short as the bare spelling, the printer cannot have kept them. *)
EXTENDS PrinterS, Json, IOUtils

Obs == ndJsonDeserialize(IOEnv.TRACE_FILE)

Verdict(r) ==
    IF ~r.parses THEN "ok"                                   \* not in this interpreter's language
    ELSE IF r.what = "minify-off" THEN
        (IF r.outcome # "return" THEN "c02:all-transforms-off-raised:" \o r.outcome
         ELSE IF ~r.strict_equal THEN "c02:all-transforms-off-changed-the-tree" ELSE "ok")
    ELSE IF r.print # "ok" THEN "c02:printer-raised:" \o r.print
    ELSE IF ~r.reparses THEN "c02:printed-text-does-not-parse"
    ELSE IF ~r.strict_equal THEN "c02:printed-text-parses-to-a-different-tree"
    ELSE "ok"

VARIABLE i
Init == i = 1
Next == /\ i <= Len(Obs)
        /\ LET v == Verdict(Obs[i]) IN (v # "ok") => PrintT(ToJson(<<"VERDICT", Obs[i].id, v>>))
        /\ i' = i + 1
Spec == Init /\ [][Next]_i
=============================================================================
