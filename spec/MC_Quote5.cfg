SPECIFICATION Spec
CONSTANT MaxLen = 5
INVARIANT ClosedLiteral
INVARIANT MiniExact
CHECK_DEADLOCK FALSE
