----------------------------- MODULE Trace_Taint -----------------------------
(* C09: TLC judges observations of the real minify() on programs that contain (or deliberately do not
   contain) a taint trigger: the multiset of identifiers before and after, the stages that ran with
   their naming flags (gating clauses of PipelineS.tla), and a run of both programs that enumerates
   namespaces and looks names up by string. *)
EXTENDS PipelineS, Json, IOUtils

Obs == ndJsonDeserialize(IOEnv.TRACE_FILE)

RECURSIVE StagesOK(_, _, _, _)
StagesOK(evs, k, o, t) ==
    IF k > Len(evs) THEN "ok"
    ELSE IF evs[k].stage \notin Stages THEN StagesOK(evs, k + 1, o, t)
    ELSE IF ~StageAllowed(evs[k].stage, o, t) THEN "c09:stage-ran-in-a-tainted-module:" \o evs[k].stage
    ELSE IF ~FlagAllowed(evs[k].stage, evs[k].flag, o, t) THEN "c09:renaming-enabled-in-a-tainted-module:" \o evs[k].stage
    ELSE StagesOK(evs, k + 1, o, t)

Verdict(r) ==
    IF ~r.trigger THEN "ok"                                    \* look-alikes are not constrained by this property
    ELSE IF r.outcome # "return" THEN "c09:minify-raised:" \o r.outcome
    ELSE IF r.seams /\ ~r.tainted_observed THEN "c09:taint-trigger-not-recognised"
    ELSE IF r.ids_in # r.ids_out THEN "c09:identifiers-changed-in-a-tainted-module"
    ELSE IF r.ran /\ r.run_in # r.run_out THEN "c09:namespace-enumeration-or-lookup-by-string-differs"
    ELSE IF r.seams THEN StagesOK(r.stages, 1, r.opts, TRUE)
    ELSE "ok"

VARIABLE i
Init == i = 1
Next == /\ i <= Len(Obs)
        /\ LET v == Verdict(Obs[i]) IN (v # "ok") => PrintT(ToJson(<<"VERDICT", Obs[i].id, v>>))
        /\ i' = i + 1
Spec == Init /\ [][Next]_i
=============================================================================
