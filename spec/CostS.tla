------------------------------- MODULE CostS -------------------------------
(* C17, decision level: the cost model that decides whether a binding is renamed / a literal hoisted.

   A decision is described by: kind of binding (name, builtin, hoisted literal), L = length of the
   current spelling (for a literal: of its repr), C = length of the candidate name, and how the
   binding is mentioned: plain mentions (every place that is simply respelled), imports without
   `as`, parameters that keep their spelling in the signature and are re-bound in the body.
   M : the arithmetic of Binding.should_rename as written (rename_cost <= current_cost).
   S : the true change of the printed size, including the separator in front of an inserted
       assignment (one character at module level or in a one-line body, newline + indentation in an
       indented block) and one blank for every replaced literal that touched a word (`'abc'for` needs
       none, `_A for` does: TokensS.tla). *)
EXTENDS Naturals, Integers

\* ---- M (binding.py / rename_literals.py)
Refs(kind, plain, imps, args) == plain + imps + args
OldMentions(kind, plain, imps, args) == IF kind = "name" THEN imps + args + (IF args > 0 THEN 1 ELSE 0) ELSE 1
NewMentions(kind, plain, imps, args) == IF kind = "name" THEN plain + imps + (IF args > 0 THEN 1 ELSE 0) ELSE plain + 1
Additional(kind, imps, args) == IF kind = "name" THEN 4 * imps + (IF args > 0 THEN 2 ELSE 0) ELSE 2
CurrentCost(kind, L, plain, imps, args) == Refs(kind, plain, imps, args) * L
RenameCost(kind, L, C, plain, imps, args) ==
    OldMentions(kind, plain, imps, args) * L + NewMentions(kind, plain, imps, args) * C + Additional(kind, imps, args)
ShouldRenameM(kind, L, C, plain, imps, args) == RenameCost(kind, L, C, plain, imps, args) <= CurrentCost(kind, L, plain, imps, args)

\* ---- S : printed size after minus before
\* sep = characters that separate an inserted assignment from what follows it
\* touch = replaced sites at which the literal stood directly against a keyword / name (hoisted literals only)
TrueDelta(kind, L, C, plain, imps, args, sep, touch) ==
    LET respelled == plain * (C - L)
        imports == imps * (4 + C)                                  \* `import m` -> `import m as A`
        inserted == IF kind = "name" THEN (IF args > 0 THEN C + 1 + L + sep ELSE 0)     \* A=x<sep>
                    ELSE C + 1 + L + sep                             \* A=<builtin or literal><sep>
    IN IF kind = "name" THEN respelled + imports + inserted
       ELSE plain * (C - L) + inserted + touch
=============================================================================
