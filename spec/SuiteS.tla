-------------------------------- MODULE SuiteS --------------------------------
(* C05: statement-suite rewriting.

   A block is a sequence of statements; a statement is a tuple of strings <<kind, ...>> over a small
   alphabet that has one symbol per construct an option talks about, plus look-alikes and fillers.
   S: one rewrite step per documented option (docs/source/transforms/*.rst), enabled only if the
      option is on and its documented side condition holds at that site; Allowed(o, ctx, blk) is
      everything reachable by any number of steps in any order (a permitted rewrite MAY fire), with
      the non-empty rule applied at the end.  Nothing else may differ.
   M: the transformers as they are written, always firing, in the order minify() runs them
      (literal statements, imports, annotations, pass, object base, asserts, debug, return None,
      exception brackets), including where each of them re-inserts `0` into an emptied suite.
   TLC checks  MOut \in Allowed  for every block up to MaxLen in every context under every subset of
   the options relevant to the block (with the irrelevant options all off and all on). *)
EXTENDS Naturals, Sequences, FiniteSets, TLC, Json

Opt == {"remove_pass", "remove_literal_statements", "combine_imports", "ann_variable", "ann_class", "remove_object_base",
        "remove_explicit_return_none", "remove_builtin_exception_brackets", "remove_asserts", "remove_debug"}

\* ---- alphabet
Literals == {<<"litnum">>, <<"litstr">>, <<"litbytes">>, <<"litnone">>}
\* dbg_chain_noelse: `if __debug__: ... elif __debug__ is True: ...` - a removable test whose else branch is again a removable test without an else branch
DebugTruthy == {<<"dbg">>, <<"dbg_is">>, <<"dbg_isnot">>, <<"dbg_eq">>, <<"dbg_chain_noelse">>}
DebugOther  == {<<"notdbg">>, <<"dbg_isfalse">>, <<"x_is_true">>, <<"x_eq_true">>, <<"true_is_dbg">>}
Returns == {<<"retnone">>, <<"retbare">>, <<"retval">>}
\* statements the -O options remove that also BIND a name (zq), and statements that look zq up.  The interpreter's -O mode drops the
\* code of an assert / `if __debug__:` block but the name stays a local of the enclosing function (the symbol table is built from the
\* whole source): a later `zq` in that function raises UnboundLocalError, and a nested `nonlocal zq` still compiles.
Binders == {<<"dbg_bind">>, <<"assert_bind">>}
\* a value-less annotation `zq: int` in a function makes zq a local of it, with or without another binding; annotation removal turns it into `zq: 0`
\* ("a value-less annotated variable stays a local")
LocalMakers == {<<"ann_zq">>, <<"annzero_zq">>}
ZqUsers == {<<"use_zq">>, <<"nl_zq">>}
\* a `global zq` declaration inside an `if __debug__:` block also survives -O (it is a directive to the compiler): a later `zq = ...` in the function
\* writes the module's zq
Declarers == {<<"dbg_global">>}
\* a `yield` inside an `if __debug__:` block makes the function a generator, under -O as well: S has no step that removes it
KindMakers == {<<"dbg_yield">>}
ZqWriters == {<<"set_zq">>}
Symbols == {<<"pass">>, <<"ell">>, <<"imp", "a">>, <<"imp", "b">>, <<"from", "os", "x">>, <<"from", "os", "y">>, <<"from", "sys", "z">>,
            <<"assert">>, <<"dbg_else">>, <<"dbg_elif">>, <<"dbg_chain">>, <<"annval">>, <<"annnoval">>,
            <<"raise0">>, <<"raiseargs">>, <<"raisefrom">>, <<"raiseuser">>, <<"classobj">>, <<"other">>, <<"other2">>}
           \cup Literals \cup DebugTruthy \cup DebugOther \cup Returns \cup Binders \cup ZqUsers \cup Declarers \cup ZqWriters \cup {<<"ann_zq">>} \cup KindMakers

\* ---- contexts
Contexts == {"module", "module_top", "function", "function_if", "class", "dataclass", "dataclass_if", "dataclass_second", "dataclass_call", "dataclass_name",
             "namedtuple", "namedtuple_name", "typeddict", "dataclass_after_inner", "namedtuple_after_inner", "class_after_dataclass", "if", "else", "for",
             "while_else", "try", "except", "finally", "with"}
IsModule(c)   == c \in {"module", "module_top"}
\* the block is not the whole suite: another statement (the nested class) precedes it, so the block itself may become empty
HasSibling(c) == c \in {"dataclass_after_inner", "namedtuple_after_inner", "class_after_dataclass"}
InFunction(c) == c \in {"function", "function_if"}
\* *_after_inner: the block follows a nested plain class (with an annotated attribute of its own) in the body of the sensitive class;
\* class_after_dataclass: the block follows a nested dataclass in the body of a plain class
ClassKind(c)  == CASE c \in {"class", "class_after_dataclass"} -> "plain"
                   [] c \in {"dataclass", "dataclass_if", "dataclass_second", "dataclass_call", "dataclass_name", "namedtuple", "namedtuple_name", "typeddict",
                             "dataclass_after_inner", "namedtuple_after_inner"} -> "sensitive"
                   [] OTHER -> "none"
\* `nonlocal zq` compiles only inside a function that binds zq
WellFormed(c, blk) == /\ \A k \in DOMAIN blk : (blk[k] \in Returns \cup KindMakers => InFunction(c))
                      /\ \A k \in DOMAIN blk : (blk[k] = <<"nl_zq">> => (InFunction(c) /\ \E j \in DOMAIN blk : blk[j] \in Binders))

\* ---- environment facts of the enclosing module
\* usesDoc: the module reads __doc__ ; shadow: the module rebinds the builtin exception name ; tainted: dynamic name access
Env == [usesDoc : BOOLEAN, shadow : BOOLEAN, tainted : BOOLEAN]

-----------------------------------------------------------------------------
\* ---- S : single rewrite steps
RemoveAt(blk, i) == SubSeq(blk, 1, i - 1) \o SubSeq(blk, i + 1, Len(blk))
ReplaceAt(blk, i, st) == [blk EXCEPT ![i] = st]
IsImp(st)  == st[1] = "imp"
IsFrom(st) == st[1] = "from"

AnnotationRemovable(o, c) == \/ (ClassKind(c) = "none" /\ "ann_variable" \in o)
                             \/ (ClassKind(c) = "plain" /\ "ann_class" \in o)
\* `shadow` means the module rebinds ValueError (the exception raised); KeyError (the cause) is never rebound
BracketsOn(o, e) == "remove_builtin_exception_brackets" \in o /\ ~e.tainted
BracketsRemovable(o, e) == BracketsOn(o, e) /\ ~e.shadow
DocstringKept(c, e, blk, i) == c = "module_top" /\ e.usesDoc /\ i = 1 /\ blk[i] = <<"litstr">>

\* removing the binder at i keeps the scope of zq: nothing in the function looks zq up, or another binding of it stays
ScopeKept(c, blk, i) == \/ ~InFunction(c)
                        \/ ~\E k \in DOMAIN blk : blk[k] \in ZqUsers
                        \/ \E j \in DOMAIN blk : j # i /\ blk[j] \in Binders \cup LocalMakers

\* removing the declaration keeps the meaning of zq: nothing else in the function mentions zq
\* (a class body is a scope of its own for this purpose: with the declaration `zq = ...` writes the module's zq, without it a class attribute)
InOwnScope(c) == InFunction(c) \/ ClassKind(c) # "none"
DeclKept(c, blk) == ~InOwnScope(c) \/ ~\E k \in DOMAIN blk : blk[k] \in ZqUsers \cup ZqWriters \cup Binders

Steps(o, c, e, blk) ==
    UNION { (
      (IF "remove_pass" \in o /\ blk[i] = <<"pass">> THEN {RemoveAt(blk, i)} ELSE {})
      \cup (IF "remove_literal_statements" \in o /\ blk[i] \in Literals /\ ~DocstringKept(c, e, blk, i) THEN {RemoveAt(blk, i)} ELSE {})
      \cup (IF "combine_imports" \in o /\ i < Len(blk) /\ IsImp(blk[i]) /\ IsImp(blk[i + 1])
              THEN {RemoveAt(ReplaceAt(blk, i, blk[i] \o Tail(blk[i + 1])), i + 1)} ELSE {})
      \cup (IF "combine_imports" \in o /\ i < Len(blk) /\ IsFrom(blk[i]) /\ IsFrom(blk[i + 1]) /\ blk[i][2] = blk[i + 1][2]
              THEN {RemoveAt(ReplaceAt(blk, i, blk[i] \o Tail(Tail(blk[i + 1]))), i + 1)} ELSE {})
      \cup (IF AnnotationRemovable(o, c) /\ blk[i] = <<"annval">> THEN {ReplaceAt(blk, i, <<"assign">>)} ELSE {})
      \cup (IF AnnotationRemovable(o, c) /\ blk[i] = <<"annnoval">> THEN {ReplaceAt(blk, i, <<"annzero">>)} ELSE {})
      \cup (IF AnnotationRemovable(o, c) /\ blk[i] = <<"ann_zq">> THEN {ReplaceAt(blk, i, <<"annzero_zq">>)} ELSE {})
      \cup (IF "remove_object_base" \in o /\ blk[i] = <<"classobj">> THEN {ReplaceAt(blk, i, <<"classnoobj">>)} ELSE {})
      \cup (IF "remove_explicit_return_none" \in o /\ blk[i] = <<"retnone">> THEN {ReplaceAt(blk, i, <<"retbare">>)} ELSE {})
      \cup (IF "remove_explicit_return_none" \in o /\ c = "function" /\ i = Len(blk) /\ blk[i] = <<"retbare">> THEN {RemoveAt(blk, i)} ELSE {})
      \cup (IF BracketsRemovable(o, e) /\ blk[i] = <<"raise0">> THEN {ReplaceAt(blk, i, <<"raise0_nb">>)} ELSE {})
      \cup (IF BracketsRemovable(o, e) /\ blk[i] = <<"raisefrom">> THEN {ReplaceAt(blk, i, <<"raisefrom_nb_exc">>)} ELSE {})
      \cup (IF BracketsOn(o, e) /\ blk[i] = <<"raisefrom">> THEN {ReplaceAt(blk, i, <<"raisefrom_nb_cause">>)} ELSE {})
      \cup (IF BracketsRemovable(o, e) /\ blk[i] = <<"raisefrom_nb_cause">> THEN {ReplaceAt(blk, i, <<"raisefrom_nb_both">>)} ELSE {})
      \cup (IF BracketsOn(o, e) /\ blk[i] = <<"raisefrom_nb_exc">> THEN {ReplaceAt(blk, i, <<"raisefrom_nb_both">>)} ELSE {})
      \cup (IF "remove_asserts" \in o /\ blk[i] = <<"assert">> THEN {RemoveAt(blk, i)} ELSE {})
      \cup (IF "remove_debug" \in o /\ blk[i] \in DebugTruthy THEN {RemoveAt(blk, i)} ELSE {})
      \cup (IF "remove_debug" \in o /\ blk[i] = <<"dbg_bind">> /\ ScopeKept(c, blk, i) THEN {RemoveAt(blk, i)} ELSE {})
      \cup (IF "remove_asserts" \in o /\ blk[i] = <<"assert_bind">> /\ ScopeKept(c, blk, i) THEN {RemoveAt(blk, i)} ELSE {})
      \cup (IF "remove_debug" \in o /\ blk[i] = <<"dbg_global">> /\ DeclKept(c, blk) THEN {RemoveAt(blk, i)} ELSE {})
      \cup (IF "remove_debug" \in o /\ blk[i] = <<"dbg_else">> THEN {ReplaceAt(blk, i, <<"nodbg">>)} ELSE {})        \* what -O runs
      \cup (IF "remove_debug" \in o /\ blk[i] = <<"dbg_elif">> THEN {ReplaceAt(blk, i, <<"elif_if">>)} ELSE {})
      \* `if __debug__: A` / `elif __debug__ is True: B` / `else: C` : -O runs C
      \cup (IF "remove_debug" \in o /\ blk[i] = <<"dbg_chain">> THEN {ReplaceAt(blk, i, <<"nodbg">>)} ELSE {})
      \* ... and each removable test may be removed on its own: the inner one (the `elif`) leaves  if __debug__: A / else: C  (dbg_else), or, having no
      \* else branch, an emptied else suite that holds the placeholder:  if __debug__: A / else: 0  (dbg_else0), whose -O meaning is nothing
      \cup (IF "remove_debug" \in o /\ blk[i] = <<"dbg_chain">> THEN {ReplaceAt(blk, i, <<"dbg_else">>)} ELSE {})
      \cup (IF "remove_debug" \in o /\ blk[i] = <<"dbg_chain_noelse">> THEN {ReplaceAt(blk, i, <<"dbg_else0">>)} ELSE {})
      \cup (IF "remove_debug" \in o /\ blk[i] = <<"dbg_else0">> THEN {RemoveAt(blk, i)} ELSE {})
      ) : i \in DOMAIN blk }

\* the non-empty rule: an emptied suite holds a single `0`; only a module body may become empty
Normalise(c, blk) == IF blk = <<>> /\ ~IsModule(c) /\ ~HasSibling(c) THEN << <<"zero">> >> ELSE blk

RECURSIVE Reach(_, _, _, _, _)
Reach(o, c, e, blks, fuel) ==
    IF fuel = 0 THEN blks
    ELSE LET nxt == blks \cup UNION { Steps(o, c, e, b) : b \in blks } IN
         IF nxt = blks THEN blks ELSE Reach(o, c, e, nxt, fuel - 1)
Allowed(o, c, e, blk) == { Normalise(c, b) : b \in Reach(o, c, e, {blk}, 3 * Len(blk) + 2) }

-----------------------------------------------------------------------------
\* ---- M : the transformers, in pipeline order, always firing
Filter(blk, keep(_)) == SelectSeq(blk, keep)
NonEmptyM(c, blk) == IF blk = <<>> /\ ~IsModule(c) /\ ~HasSibling(c) THEN << <<"zero">> >> ELSE blk

M_Literals(o, c, e, blk) ==
    IF "remove_literal_statements" \notin o THEN blk
    ELSE IF IsModule(c) /\ e.usesDoc THEN blk                      \* module-level statements are left alone when __doc__ is used
    ELSE NonEmptyM(c, Filter(blk, LAMBDA st : st \notin Literals))

RECURSIVE MergeImp(_)
MergeImp(blk) == IF Len(blk) < 2 THEN blk
                 ELSE IF IsImp(blk[1]) /\ IsImp(blk[2]) THEN MergeImp(<<blk[1] \o Tail(blk[2])>> \o SubSeq(blk, 3, Len(blk)))
                 ELSE <<blk[1]>> \o MergeImp(Tail(blk))
RECURSIVE MergeFrom(_)
MergeFrom(blk) == IF Len(blk) < 2 THEN blk
                  ELSE IF IsFrom(blk[1]) /\ IsFrom(blk[2]) /\ blk[1][2] = blk[2][2]
                       THEN MergeFrom(<<blk[1] \o Tail(Tail(blk[2]))>> \o SubSeq(blk, 3, Len(blk)))
                  ELSE <<blk[1]>> \o MergeFrom(Tail(blk))
M_Imports(o, blk) == IF "combine_imports" \in o THEN MergeFrom(MergeImp(blk)) ELSE blk

Map(blk, f(_)) == [k \in DOMAIN blk |-> f(blk[k])]
M_Annotations(o, c, blk) ==
    IF ~AnnotationRemovable(o, c) THEN blk
    ELSE Map(blk, LAMBDA st : IF st = <<"annval">> THEN <<"assign">> ELSE IF st = <<"annnoval">> THEN <<"annzero">> ELSE IF st = <<"ann_zq">> THEN <<"annzero_zq">> ELSE st)
M_Pass(o, c, blk) == IF "remove_pass" \in o THEN NonEmptyM(c, Filter(blk, LAMBDA st : st # <<"pass">>)) ELSE blk
M_Object(o, blk) == IF "remove_object_base" \in o THEN Map(blk, LAMBDA st : IF st = <<"classobj">> THEN <<"classnoobj">> ELSE st) ELSE blk
M_Asserts(o, c, blk) == IF "remove_asserts" \in o THEN NonEmptyM(c, Filter(blk, LAMBDA st : st \notin {<<"assert">>, <<"assert_bind">>})) ELSE blk
M_Debug(o, c, blk) ==
    IF "remove_debug" \notin o THEN blk
    ELSE NonEmptyM(c, Map(Filter(blk, LAMBDA st : st \notin DebugTruthy \cup {<<"dbg_bind">>, <<"dbg_global">>, <<"dbg_yield">>}),
                          LAMBDA st : IF st \in {<<"dbg_else">>, <<"dbg_chain">>} THEN <<"nodbg">> ELSE IF st = <<"dbg_elif">> THEN <<"elif_if">> ELSE st))
M_Return(o, c, blk) ==
    IF "remove_explicit_return_none" \notin o THEN blk
    ELSE LET b1 == Map(blk, LAMBDA st : IF st = <<"retnone">> THEN <<"retbare">> ELSE st)
             b2 == IF c = "function" /\ b1 # <<>> /\ b1[Len(b1)] = <<"retbare">> THEN SubSeq(b1, 1, Len(b1) - 1) ELSE b1
         IN IF c = "function" THEN NonEmptyM(c, b2) ELSE b2
M_Brackets(o, e, blk) ==
    IF ~BracketsOn(o, e) THEN blk
    ELSE IF e.shadow THEN Map(blk, LAMBDA st : IF st = <<"raisefrom">> THEN <<"raisefrom_nb_cause">> ELSE st)
    ELSE Map(blk, LAMBDA st : IF st = <<"raise0">> THEN <<"raise0_nb">> ELSE IF st = <<"raisefrom">> THEN <<"raisefrom_nb_both">> ELSE st)

\* known deviation of the code from S (finding D27): the binder is removed although the function still looks the name up
KF_D27(o, c, blk) == /\ InOwnScope(c)
                     /\ \/ /\ InFunction(c) /\ \E k \in DOMAIN blk : blk[k] \in ZqUsers
                           /\ ~\E k \in DOMAIN blk : blk[k] \in LocalMakers
                           /\ \/ ("remove_debug" \in o /\ \E k \in DOMAIN blk : blk[k] = <<"dbg_bind">>)
                              \/ ("remove_asserts" \in o /\ \E k \in DOMAIN blk : blk[k] = <<"assert_bind">>)
                        \/ ("remove_debug" \in o /\ \E k \in DOMAIN blk : blk[k] \in KindMakers)
                        \/ /\ "remove_debug" \in o /\ \E k \in DOMAIN blk : blk[k] = <<"dbg_global">>
                           /\ \E k \in DOMAIN blk : blk[k] \in ZqUsers \cup ZqWriters \cup Binders

MOut(o, c, e, blk) ==
    M_Brackets(o, e, M_Return(o, c, M_Debug(o, c, M_Asserts(o, c, M_Object(o, M_Pass(o, c,
        M_Annotations(o, c, M_Imports(o, M_Literals(o, c, e, blk)))))))))
=============================================================================
