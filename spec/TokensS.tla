------------------------------ MODULE TokensS ------------------------------
(* C02 (spacing half): when may two tokens be written next to each other without a separator?

   S: the lexical rule of the language reference (2.1.9 "whitespace is needed between two tokens only if
   their concatenation could otherwise be interpreted as a different token", the longest-match rule, the
   string-prefix and numeric-literal definitions), stated on a few features of the two token texts.
   A token is a record
       [kind, text, firstc, lastc, prefixlike, decint, emptyq]
   kind      : "name" | "keyword" | "softkw" | "number" | "string" | "op"   (op = operators and delimiters)
   firstc/lastc : class of the first / last character: "letter" | "digit" | "underscore" | "quote1" | "quote2" | "dot" | "other"
   prefixlike: the text is (case-insensitively) one of the string prefixes b r u f br rb fr rf (ur on 2.x)
   decint    : a decimal integer literal (digits and underscores only)
   emptyq    : "quote1" / "quote2" if the text is an empty short string of that quote character ('' or ""), else "no"
   hexnum    : a hexadecimal integer literal (0x...)
   head      : the first character
   The features are computed from the text by the harness (harness/tokentrace.py); S itself is validated
   against CPython's tokenizer on every pair of a token bank (Tokens.tla, side 2).
   No variables: shared by Tokens.tla (M |= S) and Trace_Tokens.tla (observed adjacencies of the real printer). *)
EXTENDS Naturals, Sequences, FiniteSets, TLC

IdLike(c) == c \in {"letter", "digit", "underscore"}

\* operator / delimiter texts that, followed by a token starting with the given character, begin a longer token
OpMerge == {<<"*", "*">>, <<"/", "/">>, <<"<", "<">>, <<">", ">">>, <<"<", "=">>, <<">", "=">>, <<"=", "=">>, <<"!", "=">>, <<"-", ">">>,
            <<"+", "=">>, <<"-", "=">>, <<"*", "=">>, <<"/", "=">>, <<"%", "=">>, <<"&", "=">>, <<"|", "=">>, <<"^", "=">>, <<"@", "=">>,
            <<":", "=">>, <<"**", "=">>, <<"//", "=">>, <<"<<", "=">>, <<">>", "=">>, <<"<", ">">>}

\* a numeric literal may be followed directly by one of these keywords (2.x - 3.13; deprecated from 3.12 on, an error for every other word
\* there), unless the keyword's first letter continues a hexadecimal literal (0x1 for -> 0x1f or)
NumberThenKeyword == {"and", "else", "for", "if", "in", "is", "not", "or"}
HexLetters == {"a", "b", "c", "d", "e", "f", "A", "B", "C", "D", "E", "F"}
NumberWordApart(a, b) == b.kind = "keyword" /\ b.text \in NumberThenKeyword /\ ~(a.hexnum /\ b.head \in HexLetters)

\* would writing a directly before b change how the text is split into tokens?
Joins(a, b) ==
    \/ a.kind # "number" /\ IdLike(a.lastc) /\ IdLike(b.firstc)               \* name / keyword running into a word or digits
    \/ a.kind = "number" /\ IdLike(b.firstc) /\ ~NumberWordApart(a, b)        \* 1 x -> invalid literal; 1 e5 -> 1e5; 1. j -> 1.j; 0x1 for -> 0x1f or
    \/ a.kind = "number" /\ a.decint /\ b.firstc = "dot"                      \* 1 .real  ->  1. real
    \/ a.lastc = "dot" /\ b.firstc = "digit"                                  \* . 5 -> .5
    \/ a.kind \in {"name", "keyword", "softkw"} /\ a.prefixlike /\ b.firstc \in {"quote1", "quote2"}      \* b 'x' -> b'x'
    \/ a.kind = "string" /\ a.emptyq # "no" /\ b.firstc = a.emptyq            \* '' 'x' -> '''x'
    \/ a.kind = "op" /\ <<a.text, b.head>> \in OpMerge                        \* * * -> ** ;  : = -> :=

\* the printer builds a few tokens out of two pieces: an augmented assignment operator from the binary operator and `=`, and the `**` of a
\* parameter specification from two stars.  The grammar has no place where these pieces could be two neighbouring tokens.
Composes(a, b) == /\ a.kind = "op" /\ b.kind = "op"
                  /\ \/ (b.text = "=" /\ a.text \in {"+", "-", "*", "/", "//", "%", "**", ">>", "<<", "&", "|", "^", "@"})
                     \/ (a.text = "*" /\ b.text = "*")

\* the printer may write the pair without a separator only if that does not join them
SepOK(a, b, sep) == sep # "" \/ ~Joins(a, b) \/ Composes(a, b)
=============================================================================
