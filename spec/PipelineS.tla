---------------------------- MODULE PipelineS ----------------------------
(* S (envelope) of the minify() pipeline: gating conditions only, no order, no variables.
   Shared by Pipeline.tla (M |= S) and Trace_Pipeline.tla (code in S). *)
EXTENDS Naturals, Sequences, FiniteSets, TLC

GateOpts == {"remove_literal_statements", "combine_imports", "remove_annotations", "remove_pass",
             "remove_object_base", "remove_asserts", "remove_debug", "remove_explicit_return_none",
             "constant_folding", "remove_builtin_exception_brackets", "hoist_literals",
             "convert_posargs_to_args"}
NameOpts == {"rename_locals", "rename_globals"}
Opts     == GateOpts \cup NameOpts

\* stage -> the option that must be on for it to run
StageOpt == [RemoveLiteralStatements      |-> "remove_literal_statements",
             CombineImports               |-> "combine_imports",
             RemoveAnnotations            |-> "remove_annotations",
             RemovePass                   |-> "remove_pass",
             RemoveObject                 |-> "remove_object_base",
             RemoveAsserts                |-> "remove_asserts",
             RemoveDebug                  |-> "remove_debug",
             RemoveExplicitReturnNone     |-> "remove_explicit_return_none",
             FoldConstants                |-> "constant_folding",
             remove_no_arg_exception_call |-> "remove_builtin_exception_brackets",
             rename_literals              |-> "hoist_literals",
             remove_posargs               |-> "convert_posargs_to_args"]
Gated          == DOMAIN StageOpt
NeedsUntainted == {"remove_no_arg_exception_call", "rename_literals"}
Always         == {"add_parent", "add_namespace", "bind_names", "resolve_names",
                   "allow_rename_locals", "allow_rename_globals", "rename", "unparse"}
Stages         == Gated \cup Always

-----------------------------------------------------------------------------
\* S : gating conditions only (no order)
StageAllowed(st, o, t) ==
    \/ st \in Always
    \/ /\ st \in Gated
       /\ o[StageOpt[st]]
       /\ (st \in NeedsUntainted => ~t)

\* the flag a naming stage is called with may enable renaming only if requested and untainted
FlagAllowed(st, flag, o, t) ==
    CASE st = "allow_rename_locals"  -> (flag => (o["rename_locals"] /\ ~t))
      [] st = "allow_rename_globals" -> (flag => (o["rename_globals"] /\ ~t))
      [] st = "rename"               -> (~flag => (o["rename_globals"] /\ ~t))   \* flag = prefix new globals with _
      [] OTHER                       -> TRUE

\* outcome clause of C08
OutcomeAllowed(parses, compiles, outcome, isSyntaxError, compilesOut) ==
    /\ (~parses => (outcome # "return" /\ isSyntaxError))
    /\ (compiles => (outcome = "return" /\ compilesOut))
=============================================================================
