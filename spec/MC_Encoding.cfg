SPECIFICATION Spec
CONSTANT Fixed = TRUE
INVARIANT ShebangExact
INVARIANT ShebangAbsent
CHECK_DEADLOCK FALSE
