----------------------------- MODULE Trace_Suite -----------------------------
(* TLC judges what the real transformers did to every enumerated (context, environment, block, options)
   case: the output suite, classified statement by statement back into the alphabet, must be one of the
   blocks Allowed by S (Suite.tla); everything outside the block must be untouched; and the runs of
   input and output must agree - under -O always (that is the documented meaning of remove_asserts /
   remove_debug), and under the default mode whenever neither of those two options is on. *)
EXTENDS SuiteS, IOUtils

Obs == ndJsonDeserialize(IOEnv.TRACE_FILE)
SeqSet(q) == {q[k] : k \in 1..Len(q)}

Verdict(r) ==
    LET o == SeqSet(r.opts)
        dashO == "remove_asserts" \in o \/ "remove_debug" \in o
    IN
    IF r.outcome # "return" THEN "c05:minify-raised:" \o r.outcome
    ELSE IF ~r.located THEN "machinery:block-not-located-in-output"
    ELSE IF r.out_blk \notin Allowed(o, r.ctx, r.env, r.blk) THEN
         (IF o = {} THEN "c05:rewrite-although-every-option-is-off"
          ELSE IF r.out_blk = <<>> THEN "c05:suite-left-empty"
          ELSE "c05:output-suite-not-among-the-documented-rewrites")
    ELSE IF r.run1_in # r.run1_out THEN "c05:behaviour-under-O-differs"
    ELSE IF ~dashO /\ r.run0_in # r.run0_out THEN "c05:behaviour-differs"
    ELSE "ok"

VARIABLE i
TInit == i = 1
TNext == /\ i <= Len(Obs)
         /\ LET v == Verdict(Obs[i]) IN (v # "ok") => PrintT(ToJson(<<"VERDICT", Obs[i].id, v>>))
         /\ i' = i + 1
TSpec == TInit /\ [][TNext]_i
=============================================================================
