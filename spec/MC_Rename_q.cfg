SPECIFICATION Spec
CONSTANTS N = 3
 NNames = 1
 FullY = TRUE
 Pep709 = FALSE
 Skeleton = FALSE
 ChainOnly = FALSE
 AnyOrder = TRUE
 AllOptions = TRUE
INVARIANT NoCapture
INVARIANT StaysCompilable
INVARIANT InterfaceKept
INVARIANT Frozen
INVARIANT Preserved
PROPERTY AssignedMonotone
CHECK_DEADLOCK FALSE
