SPECIFICATION Spec
CONSTANT MaxLen = 2
INVARIANT EmitAllowed
CHECK_DEADLOCK FALSE
