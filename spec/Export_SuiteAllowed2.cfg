SPECIFICATION Spec
CONSTANT MaxLen = 2
CONSTANT CoreOnly = FALSE
INVARIANT EmitAllowed
CHECK_DEADLOCK FALSE
