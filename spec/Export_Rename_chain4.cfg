INIT Init
NEXT Stutter
CONSTANTS N = 4
 NNames = 1
 FullY = TRUE
 Pep709 = FALSE
 Skeleton = FALSE
 ChainOnly = TRUE
 AnyOrder = TRUE
 AllOptions = FALSE
INVARIANT EmitProgram
CHECK_DEADLOCK FALSE
